"""SK rules: CFG / dominance rules over the composed skeletons (DESIGN.md section 4, SK-*)."""
import ast
import symtable

from .. import cfg as cfgmod
from ..core import Undecided, node_text
from ..idioms import (concat_operands, copy_source, increment_of, is_false, is_name, is_none_test, is_true, negated)
from ..model import call_name, dotted, is_none, names_in, walk_no_nested
from ..skeleton import USER_HOLES, config_name, hole_of, holes_in

NORMAL = lambda a, b, lab: lab not in ('exc', 'raise', 'assert')  # noqa: E731


def _sks(cx, rep, port, select=None, join=None):
    sks, errors = cx.skeletons(port)
    out = []
    for sk in sks:
        if select is not None and sk.is_select != select:
            continue
        if join is not None and sk.is_join != join:
            continue
        out.append(sk)
    return out


def _one(nodes, what, sk):
    if len(nodes) != 1:
        raise Undecided('{}: expected exactly one {} in skeleton, found {}'.format(sk.name, what, len(nodes)), nodes[0].ast if nodes else sk.body[0])
    return nodes[0]


def _eof_test(sk):
    """test node `record_a is None` (js: === null) inside the main loop"""
    ns = sk.nodes(lambda n: n.kind == 'test' and (lambda x: x is not None and is_name(x, 'record_a'))(is_none_test(n.ast, True)))
    return ns


def _get_record_nodes(sk):
    return sk.calls(lambda nm: nm.endswith('.get_record') and 'input_iterator' in nm)


def _nr_inc_nodes(sk):
    return sk.nodes(lambda n: n.kind == 'stmt' and increment_of(n.ast, 'NR') is not None)


# ------------------------------------------------------------------------------------------------
def rule_sk_parse(cx, rep, port):
    sks, errors = cx.skeletons(port)
    src = cx.port(port).files[cx.engine_mod(port)]
    for (c, kind, msg) in errors:
        key = 'compose[{}]'.format(config_name(c))
        if kind in ('syntax', 'assert'):
            rep.violated(key, (src, 0), msg)
        else:
            rep.undecided(key, (src, 0), msg)
    for sk in sks:
        rep.holds('compose[{}]'.format(config_name(sk.config)), (src, 0), 'generator folded from its own source; residual program of {} lines parses'.format(sk.text.count('\n')))
    rep.require_count('skeleton configurations', len(sks) + len(errors), 20, (src, 0))
    # hole roles come from dataflow: every configuration attribute the generator reads is in the configuration space
    for sk in sks:
        expected = {'select_expression', 'where_expression', 'variables_init_code', 'user_init_code'} if sk.is_select else {'update_expressions', 'where_expression', 'variables_init_code', 'user_init_code'}
        present = {h.name for h in sk.sstr.holes()}
        want = set(expected)
        if not sk.config['where_expression']:
            want.discard('where_expression')
        if sk.is_join:
            want.add('lhs_join_var_expression')
        if sk.is_select and sk.config['sort_key_expression']:
            want.add('sort_key_expression')
        if sk.is_select and sk.config['aggregation_key_expression']:
            want.add('aggregation_key_expression')
        missing = want - present
        extra = present - want
        counts = {h: sum(1 for x in sk.sstr.holes() if x.name == h) for h in present}
        dup = [h for h, c in counts.items() if c != 1]
        if missing:
            rep.violated('holes[{}]'.format(config_name(sk.config)), (src, 0), 'user fragment(s) {} never reach the generated program'.format(sorted(missing)))
        elif extra or dup:
            rep.violated('holes[{}]'.format(config_name(sk.config)), (src, 0), 'unexpected/duplicated fragments in generated program: extra={} duplicated={}'.format(sorted(extra), sorted(dup)))
        else:
            rep.holds('holes[{}]'.format(config_name(sk.config)), (src, 0), 'each expected user fragment is embedded exactly once: {}'.format(sorted(present)))


def rule_sk_eof(cx, rep, port):
    for sk in _sks(cx, rep, port):
        g = sk.cfg
        head = sk.loop_head()
        get = _one(_get_record_nodes(sk), 'input_iterator.get_record() call', sk)
        eofs = _eof_test(sk)
        if not eofs:
            # end of input decided by the truthiness of the record instead of `is None`: a record without fields is falsy too
            truthy = sk.nodes(lambda n: n.kind == 'test' and ((negated(n.ast) is not None and is_name(negated(n.ast), 'record_a')) or is_name(n.ast, 'record_a') or
                                                              (isinstance(n.ast, ast.Compare) and len(n.ast.ops) == 1 and isinstance(n.ast.left, ast.Call) and dotted(n.ast.left.func) == 'len' and n.ast.left.args and is_name(n.ast.left.args[0], 'record_a'))))
            if truthy:
                rep.violated(sk.name, truthy[0].ast, 'the end of the input is decided by `{}`, the truthiness of the record, instead of `record_a is None`: a record with no fields (an empty line under the whitespace policy, an empty row of a list table) ends the query, and every record after it is lost'.format(node_text(truthy[0].ast, 40)))
                continue
        eof = _one(eofs, 'EOF test on record_a', sk)
        dom = g.dominators()
        ok_order = g.dominates(get, eof, dom)
        # true edge of the EOF test must leave the loop without touching NR, a user hole or a writer
        tsucc = [s for s, lab in eof.succ if lab == 'T']
        touching = lambda n: (n.kind in ('stmt', 'test', 'for') and (holes_in(cfgmod.simple_header(n)) or increment_of(n.ast, 'NR') is not None or any(nm.endswith('.write') or nm.startswith('select_') for nm in _call_names(n))))  # noqa: E731
        leaves = all(isinstance(s.ast, ast.Break) or s is g.exit for s in tsucc) and bool(tsucc)
        if not leaves:
            # allowed alternative: return / stop_flag = True followed directly by loop head
            leaves = all(not g.exists_path(s, touching, avoid=lambda n: n is head, include_src=True) for s in tsucc) and bool(tsucc)
        incs = _nr_inc_nodes(sk)
        before = [i for i in incs if g.dominates(i, eof, dom) and _in_loop(i, sk)]
        if before:
            rep.violated(sk.name, before[0].ast, 'NR is incremented before the end-of-input test: the final None read is counted as a record')
        elif not ok_order:
            rep.violated(sk.name, eof.ast, 'end-of-input test is not dominated by the get_record() call it tests')
        elif not leaves:
            rep.violated(sk.name, eof.ast, 'a None record does not leave the loop directly: user code / NR / writer reachable after end of input')
        else:
            rep.holds(sk.name, eof.ast, 'get_record() dominates `record_a is None`; its true edge leaves the loop before NR, holes or writers')


def _call_names(n):
    h = cfgmod.simple_header(n)
    out = []
    if h is None:
        return out
    for x in walk_no_nested(h):
        if isinstance(x, ast.Call):
            nm = call_name(x)
            if nm:
                out.append(nm)
    return out


def _in_loop(n, sk):
    w = sk.main_loop()
    p = n.ast
    while p is not None:
        if p is w:
            return True
        p = getattr(p, 'parent', None)
    return False


def _enclosing_loops(node):
    out = []
    p = getattr(node, 'parent', None)
    while p is not None:
        if isinstance(p, (ast.For, ast.While)):
            out.append(p)
        p = getattr(p, 'parent', None)
    return out


def rule_sk_nr(cx, rep, port):
    for sk in _sks(cx, rep, port):
        g = sk.cfg
        dom = g.dominators()
        head = sk.loop_head()
        w = sk.main_loop()
        defs = sk.assigns('NR')
        inits = [n for n in defs if isinstance(n.ast, ast.Assign) and increment_of(n.ast, 'NR') is None]
        incs = [n for n in defs if increment_of(n.ast, 'NR') is not None]
        others = [n for n in defs if n not in inits and n not in incs]
        eof = _one(_eof_test(sk), 'EOF test', sk)
        if others:
            rep.violated(sk.name, others[0].ast, 'NR has a definition that is neither the initialisation nor a +1 increment: `{}`'.format(node_text(others[0].ast)))
            continue
        init_ok = len(inits) == 1 and isinstance(inits[0].ast.value, ast.Constant) and inits[0].ast.value.value == 0 and not _in_loop(inits[0], sk) and g.dominates(inits[0], head, dom)
        if not init_ok:
            if len(inits) == 1 and isinstance(inits[0].ast.value, ast.Constant) and inits[0].ast.value.value != 0:
                rep.violated(sk.name, inits[0].ast, 'NR starts at {} instead of 0: record numbers are shifted'.format(inits[0].ast.value.value))
            elif inits and _in_loop(inits[0], sk):
                rep.violated(sk.name, inits[0].ast, 'NR is re-initialised inside the main loop')
            else:
                rep.undecided(sk.name, w, 'NR initialisation before the loop not recognised')
            continue
        if len(incs) != 1:
            if len(incs) == 0:
                rep.violated(sk.name, w, 'NR is never incremented in the main loop')
            else:
                rep.violated(sk.name, incs[1].ast, 'NR is incremented at {} places'.format(len(incs)))
            continue
        inc = incs[0]
        k = increment_of(inc.ast, 'NR')
        loops = _enclosing_loops(inc.ast)
        user = sk.user_hole_nodes()
        rng = None
        if user:
            rng = g.count_range(lambda n: n is inc, src=eof, exits=user)
        if k != 1:
            rep.violated(sk.name, inc.ast, 'NR step is {} instead of 1'.format(k))
        elif loops != [w]:
            rep.violated(sk.name, inc.ast, 'NR increment is not directly in the main loop (enclosing loops: {}): it would count join matches, not input records'.format(len(loops)))
        elif not g.dominates(eof, inc, dom):
            rep.violated(sk.name, inc.ast, 'NR increment is not after the end-of-input test')
        elif rng is not None and rng != (1, 1):
            rep.violated(sk.name, inc.ast, 'between the end-of-input test and user code NR is incremented {} times (must be exactly once)'.format(rng))
        else:
            rep.holds(sk.name, inc.ast, 'NR=0 before loop; single +1 increment in the main loop only, after EOF test, exactly once before every user fragment')


def rule_sk_nf(cx, rep, port):
    for sk in _sks(cx, rep, port):
        g = sk.cfg
        dom = g.dominators()
        defs = sk.assigns('NF')
        eof = _one(_eof_test(sk), 'EOF test', sk)
        good = []
        for n in defs:
            v = n.ast.value if isinstance(n.ast, ast.Assign) else None
            if isinstance(v, ast.Call) and dotted(v.func) == 'len' and len(v.args) == 1 and is_name(v.args[0], 'record_a'):
                good.append(n)
        bad = [n for n in defs if n not in good]
        if bad:
            rep.violated(sk.name, bad[0].ast, 'NF is defined as `{}`, not as the field count of the current record'.format(node_text(bad[0].ast)))
            continue
        if len(good) != 1:
            rep.undecided(sk.name, sk.main_loop(), 'NF := len(record_a) not found')
            continue
        nf = good[0]
        user = sk.user_hole_nodes()
        not_dom = [u for u in user if not g.dominates(nf, u, dom)]
        if not _in_loop(nf, sk) or not g.dominates(eof, nf, dom):
            rep.violated(sk.name, nf.ast, 'NF is not recomputed per record after the end-of-input test')
        elif not_dom:
            rep.violated(sk.name, nf.ast, 'NF definition does not dominate user fragment at line {}'.format(not_dom[0].lineno))
        else:
            rep.holds(sk.name, nf.ast, 'NF := len(record_a) each iteration, dominating all user fragments')


def rule_sk_vars(cx, rep, port):
    for sk in _sks(cx, rep, port):
        g = sk.cfg
        dom = g.dominators()
        vs = sk.hole_nodes('variables_init_code')
        v = _one(vs, 'variable initialisation fragment', sk)
        if not (isinstance(v.ast, ast.Expr) and hole_of(v.ast.value) == 'variables_init_code'):
            rep.undecided(sk.name, v.ast, 'variable initialisation fragment is not a statement of its own')
            continue
        bad = []
        for u in sk.user_hole_nodes():
            hs = holes_in(cfgmod.simple_header(u)) & {'where_expression', 'select_expression', 'sort_key_expression', 'aggregation_key_expression', 'update_expressions'}
            if hs and not g.dominates(v, u, dom):
                bad.append((u, hs))
        if bad:
            rep.violated(sk.name, bad[0][0].ast, 'fragment {} can be evaluated before the variables are (re)bound for the current record'.format(sorted(bad[0][1])))
            continue
        if not _in_loop(v, sk):
            rep.violated(sk.name, v.ast, 'variables are initialised outside the main loop: every record would see the first record\'s fields')
            continue
        if sk.is_join:
            # record_b must be bound (on every path) before the variables are initialised, in the same iteration
            rb = [n for n in sk.assigns('record_b')] + _match_loops(sk)
            if not rb:
                rep.undecided(sk.name, v.ast, 'binding of record_b not found in a join skeleton')
                continue
            head = sk.loop_head()
            # every path from loop head to v passes through a binding of record_b
            escapes = g.exists_path(head, lambda n: n is v, avoid=lambda n: n in rb)
            if sk.is_select:
                inner = _match_loops(sk)
                in_inner = inner and any(_ast_inside(v.ast, f.ast) for f in inner)
                if not in_inner:
                    rep.violated(sk.name, v.ast, 'variables are initialised outside the loop over join matches: b-variables would be stale for every match but one')
                    continue
            if escapes:
                rep.violated(sk.name, v.ast, 'a path reaches the variable initialisation without binding record_b for the current record')
                continue
        rep.holds(sk.name, v.ast, 'variable initialisation dominates where/select/sort/group/update fragments' + (' and follows the binding of record_b' if sk.is_join else ''))


def _match_loops(sk):
    """for-nodes that bind record_b: either in the loop target or by unpacking the loop variable in the body"""
    out = []
    for n in sk.cfg.nodes:
        if n.kind != 'for':
            continue
        if 'record_b' in names_in(n.ast.target):
            out.append(n)
            continue
        for st in n.ast.body:
            if isinstance(st, ast.Assign) and isinstance(st.targets[0], (ast.Tuple, ast.List)) and 'record_b' in names_in(st.targets[0]) and isinstance(n.ast.target, ast.Name) and is_name(st.value, n.ast.target.id):
                out.append(n)
                break
    return out


def _ast_inside(node, anc):
    p = node
    while p is not None:
        if p is anc:
            return True
        p = getattr(p, 'parent', None)
    return False


def _where_test(sk):
    ns = [n for n in sk.hole_nodes('where_expression') if n.kind == 'test']
    return ns


def _guarded_by_true_edge(g, test, target, barriers):
    """target is reachable only through the T edge of `test` within one iteration (barriers = loop heads)."""
    dom = g.dominators()
    if not g.dominates(test, target, dom):
        return False
    fs = [s for s, lab in test.succ if lab == 'F']
    for s in fs:
        if s is target or g.exists_path(s, lambda n: n is target, avoid=lambda n: n in barriers or n is test, edge_ok=NORMAL):
            return False
    return True


def rule_sk_where(cx, rep, port):
    for sk in _sks(cx, rep, port):
        g = sk.cfg
        barriers = [sk.loop_head()] + sk.inner_loop_heads()
        if not sk.config['where_expression']:
            # constant true is embedded instead; the test must literally be the constant
            tests = [n for n in sk.nodes(lambda n: n.kind == 'test') if _const_true_guard(n.ast)]
            if sk.is_select:
                sel = _one(sk.hole_nodes('select_expression'), 'select fragment', sk)
                guards = [t for t in tests if g.dominates(t, sel)]
                if guards:
                    rep.holds(sk.name, guards[0].ast, 'without WHERE the guard is the constant true')
                else:
                    rep.violated(sk.name, sel.ast, 'without WHERE the select fragment is not guarded by the constant true default')
            else:
                upd = _one(sk.hole_nodes('update_expressions'), 'update fragment', sk)
                guards = [t for t in tests if g.dominates(t, upd)]
                if guards:
                    rep.holds(sk.name, guards[0].ast, 'without WHERE the guard is the constant true')
                else:
                    rep.violated(sk.name, upd.ast, 'without WHERE the update fragment is not guarded by the constant true default')
            continue
        wt = _one(_where_test(sk), 'where test', sk)
        # the where test must be the bare fragment, possibly conjoined with a join-match guard; never negated
        pol = _hole_polarity(wt.ast, 'where_expression')
        if pol is not True:
            rep.violated(sk.name, wt.ast, 'where fragment is used {} in the guard `{}`'.format('negated' if pol is False else 'in an unrecognised form', node_text(wt.ast)))
            continue
        targets = []
        if sk.is_select:
            targets.append(('select fragment', _one(sk.hole_nodes('select_expression'), 'select fragment', sk)))
            for nm in ('select_simple', 'select_unnested', 'select_aggregated'):
                for n in sk.calls(lambda x, nm=nm: x == nm):
                    targets.append((nm + ' call', n))
        else:
            targets.append(('update fragment', _one(sk.hole_nodes('update_expressions'), 'update fragment', sk)))
            nus = sk.nodes(lambda n: n.kind == 'stmt' and increment_of(n.ast, 'NU') is not None)
            for n in nus:
                targets.append(('NU increment', n))
        bad = [(lab, t) for lab, t in targets if not _guarded_by_true_edge(g, wt, t, barriers)]
        if bad:
            rep.violated(sk.name, bad[0][1].ast, '{} is reachable without the WHERE fragment being true'.format(bad[0][0]))
            continue
        if not sk.is_select:
            wr = sk.calls(lambda x: x.endswith('writer.write'))
            wnode = _one(wr, 'writer.write call', sk)
            if _guarded_by_true_edge(g, wt, wnode, barriers):
                rep.violated(sk.name, wnode.ast, 'UPDATE writes the record only when WHERE is true: non-matching records would be dropped')
                continue
        rep.holds(sk.name, wt.ast, 'select/update fragments and emission are control-dependent on the WHERE fragment' + ('' if sk.is_select else '; the UPDATE write is not'))


def _const_true_guard(e):
    if is_true(e):
        return True
    if isinstance(e, ast.Name) and e.id in ('True', 'true'):
        return True
    if isinstance(e, ast.BoolOp) and isinstance(e.op, ast.And):
        return any(_const_true_guard(v) for v in e.values)
    return False


def _hole_polarity(e, hole):
    """True if the hole occurs positively (bare, or as a conjunct), False if under `not`, None otherwise."""
    if hole_of(e) == hole:
        return True
    if isinstance(e, ast.BoolOp) and isinstance(e.op, ast.And):
        for v in e.values:
            if hole in holes_in(v):
                return _hole_polarity(v, hole)
    if isinstance(e, ast.UnaryOp) and isinstance(e.op, ast.Not) and hole in holes_in(e.operand):
        p = _hole_polarity(e.operand, hole)
        return None if p is None else not p
    return None


EMITTERS = ('select_aggregated', 'select_unnested', 'select_simple')


def rule_sk_emit(cx, rep, port):
    for sk in _sks(cx, rep, port, select=True):
        g = sk.cfg
        sel = _one(sk.hole_nodes('select_expression'), 'select fragment', sk)
        if not (isinstance(sel.ast, ast.Assign) and hole_of(sel.ast.value) == 'select_expression' and len(sel.ast.targets) == 1 and isinstance(sel.ast.targets[0], ast.Name)):
            rep.undecided(sk.name, sel.ast, 'select fragment is not bound by a plain assignment')
            continue
        var = sel.ast.targets[0].id
        ends = [sk.loop_head()] + sk.inner_loop_heads() + [g.exit]
        emit_nodes = sk.calls(lambda nm: nm in EMITTERS)
        rng = g.count_range(lambda n: n in emit_nodes, src=sel, exits=ends, edge_ok=NORMAL)
        if rng != (1, 1):
            rep.violated(sk.name, sel.ast, 'after the select fragment is evaluated, the number of emission calls on a path to the next iteration is {} (must be exactly 1)'.format(rng))
            continue
        # each emitter receives the evaluated list and is selected by the documented condition
        problems = []
        for n in emit_nodes:
            for x in walk_no_nested(cfgmod.simple_header(n)):
                if isinstance(x, ast.Call) and call_name(x) in EMITTERS:
                    if not (x.args and is_name(x.args[-1], var)):
                        problems.append((n, '{} does not receive the evaluated select list `{}` as its last argument'.format(call_name(x), var)))
        agg = sk.calls(lambda nm: nm == 'select_aggregated')
        unn = sk.calls(lambda nm: nm == 'select_unnested')
        sim = sk.calls(lambda nm: nm == 'select_simple')
        if len(agg) != 1 or len(unn) != 1 or len(sim) != 1:
            rep.undecided(sk.name, sel.ast, 'expected one call each of select_aggregated/select_unnested/select_simple')
            continue
        conds = _controlling_tests(g, sel, agg[0]) , _controlling_tests(g, sel, unn[0]), _controlling_tests(g, sel, sim[0])
        want = [[('aggregation_stage', True)], [('aggregation_stage', False), ('unnest_list', True)], [('aggregation_stage', False), ('unnest_list', False)]]
        for got, exp, nm in zip(conds, want, EMITTERS):
            if got != exp:
                problems.append((sel, '{} is selected by {} instead of {}'.format(nm, got, exp)))
        if problems:
            rep.violated(sk.name, problems[0][0].ast, problems[0][1])
        else:
            rep.holds(sk.name, sel.ast, 'exactly one of select_aggregated / select_unnested / select_simple per evaluation, chosen by (aggregation_stage > 0, unnest_list is not None)')


def _controlling_tests(g, src, dst):
    """Sequence of (subject, polarity) for the test nodes on the unique structured path src -> dst."""
    path = g.find_path(src, lambda n: n is dst, edge_ok=NORMAL)
    out = []
    if path is None:
        return None
    for a, b in zip(path, path[1:]):
        if a.kind == 'test':
            lab = [l for s, l in a.succ if s is b]
            subj = _test_subject(a.ast)
            if subj is None:
                continue
            pol = (lab and lab[0] == 'T')
            if subj[1] is False:
                pol = not pol
            out.append((subj[0], pol))
    return out


def _test_subject(e):
    """('aggregation_stage', True) for `qc.aggregation_stage > 0`; ('unnest_list', True) for `qc.unnest_list is not None`;
    polarity False for the inverted spellings (`== 0`, `is None`)."""
    if isinstance(e, ast.Compare) and len(e.ops) == 1:
        d = dotted(e.left) or ''
        op, c = e.ops[0], e.comparators[0]
        if d.endswith('aggregation_stage') and isinstance(c, ast.Constant):
            if isinstance(op, ast.Gt) and c.value == 0 or isinstance(op, ast.GtE) and c.value == 1 or isinstance(op, ast.NotEq) and c.value == 0:
                return ('aggregation_stage', True)
            if isinstance(op, ast.Eq) and c.value == 0 or isinstance(op, ast.Lt) and c.value == 1 or isinstance(op, ast.LtE) and c.value == 0:
                return ('aggregation_stage', False)
            return ('aggregation_stage?' + node_text(e), True)
        if d.endswith('unnest_list') and is_none(c):
            if isinstance(op, (ast.IsNot, ast.NotEq)):
                return ('unnest_list', True)
            if isinstance(op, (ast.Is, ast.Eq)):
                return ('unnest_list', False)
    return None


def _is_unnest_reset(n):
    a = n.ast
    if n.kind == 'stmt' and isinstance(a, ast.Assign) and len(a.targets) == 1:
        d = dotted(a.targets[0]) or ''
        return d.endswith('unnest_list') and is_none(a.value)
    return False


def rule_sk_unnest(cx, rep, port):
    """Every cycle through the evaluation of the select fragment passes a reset of unnest_list
    (the UNNEST closure raises 'Only one UNNEST is allowed' when the list is still set)."""
    for sk in _sks(cx, rep, port, select=True):
        g = sk.cfg
        sel = _one(sk.hole_nodes('select_expression'), 'select fragment', sk)
        resets = [n for n in g.nodes if _is_unnest_reset(n)]
        if not resets:
            rep.violated(sk.name, sel.ast, 'unnest_list is never reset in the generated loop')
            continue
        path = g.find_path(sel, lambda n: n is sel, avoid=lambda n: n in resets, edge_ok=NORMAL)
        if path is not None:
            via = [p for p in path if p.kind in ('for', 'test') and p is not sel]
            rep.violated(sk.name, sel.ast, 'the select fragment can be re-evaluated without unnest_list being reset (cycle through {}): a second matching join row makes UNNEST fail with "Only one UNNEST is allowed"'.format(', '.join('line {}'.format(p.lineno) for p in via[:3])), path=[repr(p) for p in path])
        else:
            rep.holds(sk.name, sel.ast, 'every cycle through the select fragment resets unnest_list')


def rule_sk_stop(cx, rep, port):
    for sk in _sks(cx, rep, port):
        g = sk.cfg
        head = sk.loop_head()
        w = sk.main_loop()
        # loop condition tests stop_flag negatively
        inner = negated(w.test)
        if not (inner is not None and is_name(inner, 'stop_flag')):
            rep.violated(sk.name, w, 'main loop condition `{}` is not `not stop_flag`'.format(node_text(w.test)))
            continue
        # ... and the flag starts out False: whether table A is read at all does not depend on anything
        in_loop = {id(x) for x in ast.walk(w)}
        inits = [n for st in sk.body for n in ast.walk(st) if isinstance(n, ast.Assign) and id(n) not in in_loop and any(is_name(t, 'stop_flag') for t in n.targets)]
        bad_init = [n for n in inits if not is_false(n.value)]
        if bad_init:
            if 'update' in sk.name:
                rep.violated(sk.name + ' initial stop flag', bad_init[0], 'the main loop starts with stop_flag = `{}`: under that condition no record of table A is read, but an UPDATE has to write every record of A (changed or not)'.format(node_text(bad_init[0].value, 80)))
            else:
                rep.undecided(sk.name + ' initial stop flag', bad_init[0], 'the main loop starts with stop_flag = `{}`: whether skipping table A is right for this kind of query is not decided'.format(node_text(bad_init[0].value, 80)))
            continue
        if not inits:
            rep.undecided(sk.name + ' initial stop flag', w, 'initialisation of stop_flag not found')
            continue
        verdict_calls = sk.calls(lambda nm: nm in ('select_unnested', 'select_simple') or nm.endswith('writer.write'))
        if not verdict_calls:
            rep.undecided(sk.name, w, 'no verdict-returning call found')
            continue
        bad = None
        for n in verdict_calls:
            # must be a test node `not <call>` whose T successor sets stop_flag = True
            if n.kind != 'test' or negated(n.ast) is None or not isinstance(negated(n.ast), ast.Call):
                bad = (n, 'the verdict of `{}` is not tested (result dropped): a refusing writer cannot stop the loop'.format(node_text(cfgmod.simple_header(n))))
                break
            ts = [s for s, lab in n.succ if lab == 'T']
            sets = [s for s in ts if isinstance(s.ast, ast.Assign) and any(is_name(t, 'stop_flag') for t in s.ast.targets) and is_true(s.ast.value)]
            if not sets:
                bad = (n, 'a false verdict of `{}` does not set stop_flag'.format(node_text(negated(n.ast))))
                break
            # from the assignment, every path back into any loop head must pass `if stop_flag: break` (inner loops) or the main loop head
            for ih in sk.inner_loop_heads():
                def is_stop_break(x):
                    return x.kind == 'test' and is_name(x.ast, 'stop_flag') and any(lab == 'T' and isinstance(s.ast, ast.Break) for s, lab in x.succ)
                if g.exists_path(sets[0], lambda x: x is ih, avoid=lambda x: is_stop_break(x) or x is head, edge_ok=NORMAL):
                    bad = (n, 'after stop_flag is set the inner loop at line {} can continue with the next match (no `if stop_flag: break`)'.format(ih.lineno))
                    break
            if bad:
                break
        if bad:
            rep.violated(sk.name, bad[0].ast, bad[1])
        else:
            rep.holds(sk.name, w, 'loop tests `not stop_flag`; {} verdict call(s) set stop_flag on false; inner loops break on stop_flag'.format(len(verdict_calls)))


def _up_fields_defs(sk):
    return sk.assigns('up_fields')


def rule_sk_copy(cx, rep, port):
    for sk in _sks(cx, rep, port, select=False):
        g = sk.cfg
        dom = g.dominators()
        defs = _up_fields_defs(sk)
        if len(defs) != 1 or not isinstance(defs[0].ast, ast.Assign):
            rep.undecided(sk.name, sk.main_loop(), 'single definition of up_fields not found ({} found)'.format(len(defs)))
            continue
        d = defs[0]
        v = d.ast.value
        src = copy_source(v)
        upd = _one(sk.hole_nodes('update_expressions'), 'update fragment', sk)
        wr = _one(sk.calls(lambda x: x.endswith('writer.write')), 'writer.write call', sk)
        if is_name(v, 'record_a'):
            rep.violated(sk.name, d.ast, '`{}` binds up_fields to the input record itself: UPDATE mutates the caller\'s row and the output aliases the input'.format(node_text(d.ast)))
        elif src is not None and is_name(src, 'record_a'):
            if not _in_loop(d, sk):
                rep.violated(sk.name, d.ast, 'up_fields is copied outside the main loop')
            elif not g.dominates(d, upd, dom) or not g.dominates(d, wr, dom):
                rep.violated(sk.name, d.ast, 'the copy of the record does not dominate the update fragment and the write')
            else:
                rep.holds(sk.name, d.ast, 'up_fields is a fresh copy of record_a (`{}`) made every iteration before assignments and write'.format(node_text(v)))
        elif 'record_a' in names_in(v):
            rep.undecided(sk.name, d.ast, 'up_fields is derived from record_a by `{}`, which is not a recognised copy idiom'.format(node_text(v)))
        else:
            rep.violated(sk.name, d.ast, 'up_fields is not derived from the current record: `{}`'.format(node_text(d.ast)))


def rule_sk_upd(cx, rep, port):
    for sk in _sks(cx, rep, port, select=False):
        g = sk.cfg
        head = sk.loop_head()
        eof = _one(_eof_test(sk), 'EOF test', sk)
        wrs = sk.calls(lambda x: x.endswith('writer.write'))
        if not wrs:
            rep.violated(sk.name, sk.main_loop(), 'UPDATE skeleton never writes a record')
            continue
        upd = _one(sk.hole_nodes('update_expressions'), 'update fragment', sk)
        fsucc = [s for s, lab in eof.succ if lab == 'F']
        src = fsucc[0] if fsucc else eof
        rng = g.count_range(lambda n: n in wrs, src=src, exits=[head, g.exit], edge_ok=NORMAL)
        bad_arg = None
        for n in wrs:
            for x in walk_no_nested(cfgmod.simple_header(n)):
                if isinstance(x, ast.Call) and (call_name(x) or '').endswith('writer.write'):
                    if not (len(x.args) == 1 and is_name(x.args[0], 'up_fields')):
                        bad_arg = (n, x)
        after = g.exists_path(wrs[0], lambda n: n is upd, avoid=lambda n: n is head, edge_ok=NORMAL)
        if bad_arg:
            rep.violated(sk.name, bad_arg[0].ast, 'UPDATE writes `{}` instead of the updated copy up_fields'.format(node_text(bad_arg[1])))
        elif rng != (1, 1):
            rep.violated(sk.name, wrs[0].ast, 'number of writes per input record on a normal path is {} (must be exactly 1)'.format(rng))
        elif after:
            rep.violated(sk.name, wrs[0].ast, 'the record is written before the assignments are applied')
        elif not (isinstance(upd.ast, ast.Expr) and hole_of(upd.ast.value) == 'update_expressions'):
            rep.undecided(sk.name, upd.ast, 'update fragment is not a statement block of its own')
        else:
            rep.holds(sk.name, wrs[0].ast, 'exactly one writer.write(up_fields) per input record on every normal path, after the assignments')


def rule_sk_nu(cx, rep, port):
    for sk in _sks(cx, rep, port, select=False):
        g = sk.cfg
        dom = g.dominators()
        defs = sk.assigns('NU')
        inits = [n for n in defs if increment_of(n.ast, 'NU') is None]
        incs = [n for n in defs if increment_of(n.ast, 'NU') is not None]
        upd = _one(sk.hole_nodes('update_expressions'), 'update fragment', sk)
        if len(inits) != 1 or not (isinstance(inits[0].ast, ast.Assign) and isinstance(inits[0].ast.value, ast.Constant) and inits[0].ast.value.value == 0) or _in_loop(inits[0], sk):
            rep.violated(sk.name, (inits[0].ast if inits else sk.main_loop()), 'NU is not initialised to 0 once before the loop')
        elif len(incs) != 1 or increment_of(incs[0].ast, 'NU') != 1:
            rep.violated(sk.name, (incs[0].ast if incs else upd.ast), 'NU is not incremented by exactly one per updated record ({} increments)'.format(len(incs)))
        elif not g.dominates(incs[0], upd, dom):
            rep.violated(sk.name, incs[0].ast, 'NU is incremented after the assignments: the right-hand sides see the old count')
        else:
            barriers = [sk.loop_head()] + sk.inner_loop_heads()
            # same guard as the update fragment: no test between them
            between = g.find_path(incs[0], lambda n: n is upd, edge_ok=NORMAL)
            tests = [p for p in (between or []) if p.kind == 'test']
            if tests:
                rep.violated(sk.name, incs[0].ast, 'NU increment and assignments are under different guards')
            else:
                rep.holds(sk.name, incs[0].ast, 'NU=0 before loop, +1 immediately before the assignments under the same guard')


def rule_sk_join(cx, rep, port):
    for sk in _sks(cx, rep, port):
        g = sk.cfg
        stars = sk.assigns('star_fields')
        if not sk.is_join:
            if sk.is_select:
                s = _one(stars, 'star_fields definition', sk)
                if isinstance(s.ast, ast.Assign) and is_name(s.ast.value, 'record_a'):
                    rep.holds(sk.name, s.ast, 'without join star_fields is the input record')
                else:
                    rep.violated(sk.name, s.ast, 'without join star_fields is `{}`, not record_a'.format(node_text(s.ast)))
            else:
                rep.holds(sk.name, sk.main_loop(), 'update without join: no pairing code')
            continue
        jm = sk.assigns('join_matches')
        j = _one(jm, 'join_matches definition', sk)
        v = j.ast.value if isinstance(j.ast, ast.Assign) else None
        ok_src = isinstance(v, ast.Call) and (call_name(v) or '').endswith('join_map.get_rhs') and len(v.args) == 1 and hole_of(v.args[0]) == 'lhs_join_var_expression'
        if not ok_src:
            rep.violated(sk.name, j.ast, 'join matches are not the joiner\'s get_rhs(<lhs key>) result: `{}`'.format(node_text(j.ast)))
            continue
        if sk.is_select:
            f = _one(_match_loops(sk), 'loop over join matches', sk)
            it = f.ast.iter
            tgt = f.ast.target
            body0 = f.ast.body[0] if f.ast.body else None
            # python unpacks in the first body statement; js destructures in the first statement as well
            triple = None
            if isinstance(tgt, ast.Tuple):
                triple = [dotted(e) for e in tgt.elts]
            elif isinstance(body0, ast.Assign) and isinstance(body0.targets[0], ast.Tuple) and isinstance(tgt, ast.Name) and is_name(body0.value, tgt.id):
                triple = [dotted(e) for e in body0.targets[0].elts]
            if not is_name(it, 'join_matches'):
                rep.violated(sk.name, f.ast, 'the match loop iterates `{}` instead of the matches in B order'.format(node_text(it)))
                continue
            if triple != ['bNR', 'bNF', 'record_b']:
                rep.violated(sk.name, f.ast, 'a match is unpacked as {} instead of (bNR, bNF, record_b)'.format(triple))
                continue
            s = _one(stars, 'star_fields definition', sk)
            ops = concat_operands(s.ast.value) if isinstance(s.ast, ast.Assign) else None
            if not (ops and [dotted(o) for o in ops] == ['record_a', 'record_b']):
                rep.violated(sk.name, s.ast, 'star_fields is `{}`, not the fresh concatenation record_a then record_b'.format(node_text(s.ast)))
                continue
            if not _ast_inside(s.ast, f.ast):
                rep.violated(sk.name, s.ast, 'star_fields is not recomputed per match')
                continue
            # whole common block inside the match loop
            outside = [u for u in sk.user_hole_nodes() if not _ast_inside(u.ast if u.kind != 'test' else u.info, f.ast) and 'lhs_join_var_expression' not in holes_in(cfgmod.simple_header(u))]
            if outside:
                rep.violated(sk.name, outside[0].ast, 'a user fragment is evaluated outside the loop over matches')
                continue
            rep.holds(sk.name, f.ast, 'A record x get_rhs(key) matches in order; triple (bNR,bNF,record_b); star_fields = record_a + record_b per match; all fragments inside the match loop')
        else:
            # update join: >1 raises, ==1 binds, else all None; update guarded by len == 1 and WHERE
            tests = sk.nodes(lambda n: n.kind == 'test' and 'join_matches' in names_in(n.ast))
            gt1 = [t for t in tests if _len_cmp(t.ast, 'join_matches') in (('>', 1), ('>=', 2))]
            eq1 = [t for t in tests if _len_cmp(t.ast, 'join_matches') == ('==', 1)]
            if not gt1 or not any(isinstance(s.ast, ast.Raise) for s, lab in gt1[0].succ if lab == 'T'):
                rep.violated(sk.name, j.ast, 'more than one match in UPDATE JOIN does not raise')
                continue
            rb = sk.assigns('record_b')
            binds = [n for n in rb if isinstance(n.ast, ast.Assign) and isinstance(n.ast.targets[0], ast.Tuple) and [dotted(e) for e in n.ast.targets[0].elts] == ['bNR', 'bNF', 'record_b'] and isinstance(n.ast.value, ast.Subscript) and is_name(n.ast.value.value, 'join_matches') and isinstance(n.ast.value.slice, ast.Constant) and n.ast.value.slice.value == 0]
            if not binds:
                rep.violated(sk.name, j.ast, 'the single match is not bound as (bNR, bNF, record_b) = join_matches[0]')
                continue
            if not any(_guarded_by_true_edge(g, t, binds[0], [sk.loop_head()]) for t in eq1):
                rep.violated(sk.name, binds[0].ast, 'binding of the match is not guarded by len(join_matches) == 1')
                continue
            nulls = [n for n in rb if n not in binds]
            null_ok = nulls and all(_all_none(n.ast) for n in nulls)
            if not null_ok:
                rep.violated(sk.name, (nulls[0].ast if nulls else j.ast), 'without a match record_b/bNR/bNF are not all None')
                continue
            upd = _one(sk.hole_nodes('update_expressions'), 'update fragment', sk)
            guard = [t for t in tests if _len_cmp_in(t.ast, 'join_matches') == ('==', 1) and g.dominates(t, upd) and _guarded_by_true_edge(g, t, upd, [sk.loop_head()])]
            if not guard:
                rep.violated(sk.name, upd.ast, 'assignments are applied to records without a join partner')
                continue
            rep.holds(sk.name, j.ast, 'UPDATE JOIN: >1 matches raises, exactly 1 binds the triple, none binds Nones; assignments guarded by len == 1 and WHERE')


def _len_cmp(e, name):
    if isinstance(e, ast.Compare) and len(e.ops) == 1 and isinstance(e.left, ast.Call) and dotted(e.left.func) == 'len' and e.left.args and is_name(e.left.args[0], name) and isinstance(e.comparators[0], ast.Constant):
        op = {ast.Gt: '>', ast.GtE: '>=', ast.Eq: '==', ast.NotEq: '!=', ast.Lt: '<', ast.LtE: '<='}.get(type(e.ops[0]))
        return (op, e.comparators[0].value)
    return None


def _len_cmp_in(e, name):
    r = _len_cmp(e, name)
    if r:
        return r
    if isinstance(e, ast.BoolOp) and isinstance(e.op, ast.And):
        for v in e.values:
            r = _len_cmp(v, name)
            if r:
                return r
    return None


def _all_none(st):
    if isinstance(st, ast.Assign):
        v = st.value
        if is_none(v):
            return True
        if isinstance(v, (ast.Tuple, ast.List)) and all(is_none(x) for x in v.elts):
            return True
    return False


def rule_sk_err(cx, rep, port):
    for sk in _sks(cx, rep, port):
        g = sk.cfg
        w = sk.main_loop()
        tries = [st for st in ast.walk(w) if isinstance(st, ast.Try)]
        user = [u for u in sk.user_hole_nodes()]
        cover = [t for t in tries if all(_in_try_body(u.ast if u.kind != 'test' else u.info, t) for u in user)]
        if not cover:
            out = [u for u in user if not any(_in_try_body(u.ast if u.kind != 'test' else u.info, t) for t in tries)]
            rep.violated(sk.name, (out[0].ast if out else w), 'user fragment {} is evaluated outside the per-record try: its failure is not reported with the record number'.format(sorted(holes_in(cfgmod.simple_header(out[0]))) if out else '?'))
            continue
        t = cover[-1]
        # nothing swallowed: no normal continuation out of any handler
        head = sk.loop_head()
        hnodes = [n for n in g.nodes if n.kind == 'handler' and n.ast in t.handlers]
        swallow = [h for h in hnodes if g.exists_path(h, lambda n: n is head or n is g.exit, edge_ok=NORMAL)]
        if swallow:
            rep.violated(sk.name, swallow[0].ast, 'an exception handler can fall through to the next record: the failure is swallowed and later records are still processed')
            continue
        raises = []
        for h in t.handlers:
            for st in ast.walk(h):
                if isinstance(st, ast.Raise):
                    raises.append((h, st))
        info = [_classify_raise(h, st) for h, st in raises]
        problems = []
        if port == 'py':
            # handler order: specific before generic
            types = [dotted(h.type) if h.type is not None else None for h in t.handlers]
            generic = [i for i, ty in enumerate(types) if ty in (None, 'Exception', 'BaseException')]
            if generic and generic[0] != len(types) - 1:
                problems.append((t.handlers[generic[0]], 'the catch-all handler precedes {}: specific errors are reported generically'.format(types[generic[0] + 1:])))
        want = [('InternalBadFieldError', 'RbqlRuntimeError', {'bad_idx+1', 'NR'}), ('RbqlParsingError', 'reraise', set()), ('*', 'RbqlRuntimeError', {'NR'})]
        if port == 'py':
            want.insert(0, ('InternalBadKeyError', 'RbqlRuntimeError', {'bad_key', 'NR'}))
        for guard, cls, feats in want:
            m = [i for i in info if i['guard'] == guard and i['raises'] == cls]
            if not m:
                problems.append((t, 'no handler path for {} that raises {}'.format(guard, cls)))
                continue
            if not any(feats <= i['features'] for i in m):
                problems.append((m[0]['node'], 'the {} report for {} lacks {} (message: `{}`)'.format(cls, guard, sorted(feats - m[0]['features']), node_text(m[0]['node']))))
        # the read of the next input record stays outside that try (unless IO errors are re-raised unchanged): its failures are
        # IO / decoding errors of the input, not errors of the query at record N
        reads = [c for b in t.body for c in ast.walk(b) if isinstance(c, ast.Call) and isinstance(c.func, ast.Attribute) and c.func.attr == 'get_record' and 'input_iterator' in (dotted(c.func.value) or '')]
        io_passthrough = any(i['guard'] in ('RbqlIOHandlingError',) and i['raises'] == 'reraise' for i in info)
        if reads and not io_passthrough:
            problems.append((reads[0], 'the next input record is read inside the per-record try: a decoding / IO error of the input is caught by the catch-all handler and reported as a query runtime error "At record N" instead of an IO handling error'))
        if problems:
            rep.violated(sk.name, problems[0][0], problems[0][1])
        else:
            rep.holds(sk.name, t, 'one try covers all user fragments; handlers never fall through; bad field -> runtime error with index+1 and NR; parsing error re-raised; generic -> runtime error with NR')


def _in_try_body(node, t):
    p = node
    while p is not None:
        par = getattr(p, 'parent', None)
        if par is t:
            return p in t.body
        p = par
    return False


def _classify_raise(h, st):
    """guard: exception class name the raise is specific to ('*' = generic); raises: class name or 'reraise'; features of message."""
    guard = '*'
    if h.type is not None:
        d = dotted(h.type)
        if d not in ('Exception', 'BaseException'):
            guard = d
    # JS: if-chain on e.constructor.name === 'X' ; python generic handler: nested ifs on str(e)
    p = st
    while p is not None and p is not h:
        par = getattr(p, 'parent', None)
        if isinstance(par, ast.If):
            in_body = p in par.body
            cn = _constructor_name_test(par.test)
            if cn and in_body and guard == '*':
                guard = cn
            elif cn is None and in_body and guard == '*' and not _is_debug_test(par.test):
                guard = '*if:' + node_text(par.test, 60)
        p = par
    if st.exc is None:
        raises = 'reraise'
    else:
        e = st.exc
        if isinstance(e, ast.Call):
            raises = dotted(e.func)
        elif isinstance(e, ast.Name) and e.id == h.name:
            raises = 'reraise'
        else:
            raises = node_text(e, 40)
    feats = set()
    if st.exc is not None:
        names = names_in(st.exc)
        if 'NR' in names:
            feats.add('NR')
        for x in ast.walk(st.exc):
            if isinstance(x, ast.Attribute) and x.attr == 'bad_key':
                feats.add('bad_key')
            if isinstance(x, ast.BinOp) and isinstance(x.op, ast.Add) and isinstance(x.left, ast.Attribute) and x.left.attr == 'bad_idx' and isinstance(x.right, ast.Constant) and x.right.value == 1:
                feats.add('bad_idx+1')
    return {'guard': guard, 'raises': raises, 'features': feats, 'node': st}


def _constructor_name_test(e):
    if isinstance(e, ast.Compare) and len(e.ops) == 1 and isinstance(e.ops[0], ast.Eq):
        d = dotted(e.left) or ''
        if d.endswith('constructor.name') and isinstance(e.comparators[0], ast.Constant):
            return e.comparators[0].value
    if isinstance(e, ast.Call) and dotted(e.func) == 'isinstance' and len(e.args) == 2:
        return dotted(e.args[1])
    return None


def _is_debug_test(e):
    return isinstance(e, ast.Name) and e.id == 'debug_mode'


JS_ALIAS_ALLOW = {'FOLD': 'ARRAY_AGG', 'UNFOLD': 'UNNEST'}  # deprecated spellings, marked as such in the source


def rule_sk_alias(cx, rep, port):
    p = cx.port(port)
    mod = cx.engine_mod(port)
    n = 0
    if port == 'py':
        sks = _sks(cx, rep, port)
        if not sks:
            raise Undecided('no python skeleton available')
        sk = sks[0]
        wrapper = sk.wrapper
        params = [a.arg for a in wrapper.args.args]
        # call statement at module level passes the same names in the same order
        calls = [st for st in sk.module.body if isinstance(st, ast.Expr) and isinstance(st.value, ast.Call) and dotted(st.value.func) == wrapper.name]
        if len(calls) != 1:
            rep.undecided('wrapper call', wrapper, 'the composed module does not call the wrapper exactly once')
        else:
            args = [dotted(a) for a in calls[0].value.args]
            rep.decide(args == params, 'wrapper-call arguments', calls[0], 'wrapper parameters and call arguments are the same names in the same order', 'wrapper parameters {} and call arguments {} differ: a closure is bound to another function\'s name'.format(params, args))
        for st in wrapper.body:
            if isinstance(st, ast.Assign) and len(st.targets) == 1 and isinstance(st.targets[0], ast.Name) and isinstance(st.value, ast.Name) and st.value.id in params:
                a, tname = st.targets[0].id, st.value.id
                if tname in ('user_namespace', 'query_context'):
                    continue
                n += 1
                if tname.startswith('mad_'):
                    ok = a == tname[len('mad_'):]
                else:
                    ok = a.lower() == tname.lower()
                rep.decide(ok, 'alias {}'.format(a), st, '{} = {}'.format(a, tname), 'alias `{}` is bound to `{}`: the function of that name computes something else'.format(a, tname))
        rep.require_count('prologue aliases', n, 20, wrapper)
        # the closures passed under each parameter name are the functions of the same name in compile_and_run
        car = p.func(mod, 'compile_and_run')
        inner = {st.name for st in car.body if isinstance(st, (ast.FunctionDef, ast.ClassDef))}
        missing = [x for x in params if x not in inner and x not in ('query_context', 'user_namespace')]
        rep.decide(not missing, 'wrapper parameters defined in compile_and_run', car, 'every wrapper parameter names a closure defined per run in compile_and_run', 'wrapper parameter(s) {} are not closures of compile_and_run'.format(missing))
    else:
        m = p.modules[mod]
        fnames = {st.name for st in m.body if isinstance(st, ast.FunctionDef)}
        for st in m.body:
            if isinstance(st, ast.Assign) and getattr(st, 'js_declared', False) and isinstance(st.targets[0], ast.Name) and isinstance(st.value, ast.Name) and st.value.id in fnames:
                a, tname = st.targets[0].id, st.value.id
                n += 1
                ok = a.lower() == tname.lower() or JS_ALIAS_ALLOW.get(a) == tname
                rep.decide(ok, 'alias {}'.format(a), st, '{} = {}'.format(a, tname), 'alias `{}` is bound to `{}`: the function of that name computes something else'.format(a, tname))
        rep.require_count('module-level aliases', n, 20, m.body[0])


def rule_sk_scope(cx, rep, port):
    """(python) composed module = one def + one call; no global/nonlocal; every binding in the wrapper is local."""
    for sk in _sks(cx, rep, port):
        mod = sk.module
        kinds = [type(s).__name__ for s in mod.body]
        if kinds != ['FunctionDef', 'Expr']:
            rep.violated(sk.name, mod.body[0], 'composed module top level is {} (expected one def and one call): generated statements would run in the shared namespace'.format(kinds))
            continue
        bad = [n for n in ast.walk(mod) if isinstance(n, (ast.Global, ast.Nonlocal))]
        if bad:
            rep.violated(sk.name, bad[0], '`{}` in the generated program: per-run state escapes into a shared namespace'.format(node_text(bad[0])))
            continue
        try:
            st = symtable.symtable(sk.text, '<skeleton>', 'exec')
        except SyntaxError as e:
            rep.undecided(sk.name, mod.body[0], 'symtable failed: {}'.format(e))
            continue
        fn = [c for c in st.get_children() if c.get_type() == 'function']
        nonlocal_assigned = [s.get_name() for s in fn[0].get_symbols() if s.is_assigned() and not s.is_local()]
        top_assigned = [s.get_name() for s in st.get_symbols() if s.is_assigned() and s.get_name() != sk.wrapper.name]
        if nonlocal_assigned or top_assigned:
            rep.violated(sk.name, mod.body[0], 'names assigned outside the wrapper\'s local scope: {}'.format(nonlocal_assigned + top_assigned))
        else:
            rep.holds(sk.name, mod.body[0], 'one def + one call; {} wrapper bindings, all local; no global/nonlocal'.format(sum(1 for s in fn[0].get_symbols() if s.is_assigned())))


EXPR_HOLES = ['where_expression', 'select_expression', 'sort_key_expression', 'aggregation_key_expression', 'lhs_join_var_expression']


def rule_sk_paren(cx, rep, port):
    """an expression fragment spliced in as an operand of an operator must be parenthesised in the template text: the fragment is
    arbitrary user text, so `X and FRAGMENT` would re-associate when the fragment contains a lower-precedence operator"""
    from ..skeleton import hole_ident
    n = 0
    for sk in _sks(cx, rep, port):
        for h in EXPR_HOLES:
            ident = hole_ident(h)
            nodes = [x for x in ast.walk(sk.module) if isinstance(x, ast.Name) and x.id == ident]
            for nd in nodes:
                par = getattr(nd, 'parent', None)
                if not isinstance(par, (ast.BoolOp, ast.BinOp, ast.Compare, ast.UnaryOp, ast.IfExp, ast.Subscript, ast.Attribute)):
                    continue
                n += 1
                i = sk.text.find(ident)
                before = sk.text[:i].rstrip()
                after = sk.text[i + len(ident):].lstrip()
                ok = before.endswith('(') and after.startswith(')')
                if ok:
                    rep.holds('{} {}'.format(sk.name, h), nd, 'fragment is an operand of `{}` and is parenthesised in the template'.format(type(par).__name__))
                else:
                    rep.violated('{} {}'.format(sk.name, h), nd, 'the {} fragment is spliced in as an operand of `{}` without parentheses (`{}`): a fragment containing a lower-precedence operator (or / ?: / ,) re-associates with the engine\'s own condition'.format(h, node_text(par, 80), node_text(par, 80)))
    if n == 0:
        rep.holds('expression fragments', (cx.port(port).files[cx.engine_mod(port)], 0), 'no expression fragment is an operand of an engine operator')


def _unnest_model(cx, rep, port, p, mod, fd):
    """select_unnested decided on its abstract runs: for UNNEST lists of 0, 1 and 3 elements, records with the marker at the first, a
    middle and the last position, and every sequence of verdicts of select_simple: one call per list element, in list order, each
    with a new list equal to the record with the marker replaced by the element; the expansion stops at the first refusal and
    returns False exactly then (True for the empty list); the record handed in is left as it was."""
    from .. import absexec as AX
    params = [a.arg for a in fd.args.args]
    bad = {}
    n = 0
    try:
        for n_el in (0, 1, 3):
            for shape in (['F0', 'M', 'F2'], ['M'], ['F0', 'F1', 'M']):
                ctx = AX.Abs('Ctx')
                els = [AX.Abs('El', id='U%d' % i) for i in range(n_el)]
                marker = AX.Abs('Obj', cls='UNNEST')
                toks = {k: AX.Abs('Fld', id=k) for k in ('F0', 'F1', 'F2')}
                record = [marker if k == 'M' else toks[k] for k in shape]
                original = list(record)
                calls = []

                def on_name(ex, node, name):
                    if name == 'query_context':
                        return ctx
                    if name in ('UNNEST', 'UnnestMarker', 'Unnest', 'UNFOLD'):
                        return ('class', 'UNNEST')
                    return AX.NOT_HANDLED

                def on_attr(ex, node, obj, attr, els=els):
                    if obj is ctx and attr == 'unnest_list':
                        return list(els)
                    return AX.NOT_HANDLED

                def on_call(ex, node, fname, recv, args, calls=calls):
                    short = node.func.attr if isinstance(node.func, ast.Attribute) else fname.split('.')[-1]
                    if short == 'select_simple' and args and isinstance(args[-1], list):
                        if not hasattr(ex.run, 'emitted'):
                            ex.run.emitted = []
                        ex.run.emitted.append((args[-1], list(args[-1])))
                        return ex.choose('verdict', [True, False])
                    return AX.NOT_HANDLED
                ex = AX.Explorer(p, mod, on_call=on_call, on_attr=on_attr, on_name=on_name, max_choices=4, follow=False)
                args = []
                for prm in params:
                    args.append(ctx if prm == 'query_context' else (record if prm == params[-1] else AX.Abs('Opaque')))
                runs, cut = ex.explore(fd, args)
                for r in runs:
                    n += 1
                    verdicts = [v for lab, _, v in r.choices if lab == 'verdict']
                    emitted = getattr(r, 'emitted', [])
                    # expected number of calls: up to and including the first refusal
                    want_calls = n_el if False not in verdicts[:n_el] else verdicts.index(False) + 1
                    desc = 'UNNEST list of {} element(s), marker at position {} of {}, verdicts {}'.format(n_el, shape.index('M') + 1, len(shape), verdicts)
                    kind, val, node = r.outcome
                    if kind != 'return':
                        bad.setdefault('unnest verdict', '{}: raises {}'.format(desc, getattr(val, 'kind', val)))
                        continue
                    if len(emitted) != want_calls:
                        bad.setdefault('unnest count' if False not in verdicts else 'unnest verdict', '{}: select_simple is called {} time(s) instead of {}'.format(desc, len(emitted), want_calls))
                        continue
                    want_ret = False not in verdicts[:want_calls]
                    if val is not want_ret and not (isinstance(val, bool) and val == want_ret):
                        bad.setdefault('unnest verdict', '{}: select_unnested returns {!r} instead of {}'.format(desc, val, want_ret))
                    for i, (obj, snap) in enumerate(emitted):
                        want = [els[i] if x is marker else x for x in original]
                        if not (len(snap) == len(want) and all(a is b for a, b in zip(snap, want))):
                            bad.setdefault('unnest order', '{}: call {} receives a record that is not the input record with the marker replaced by element {}'.format(desc, i + 1, i + 1))
                        if obj is record or any(obj is o2 for o2, _ in emitted[:i]):
                            bad.setdefault('unnest copy', '{}: call {} receives {} - a writer that keeps its records would see them change'.format(desc, i + 1, 'the input record itself' if obj is record else 'the same list object as an earlier call'))
                    if not (len(record) == len(original) and all(a is b for a, b in zip(record, original))):
                        bad.setdefault('unnest copy', '{}: the record handed to select_unnested is modified in place'.format(desc))
    except (Undecided, AX.Cut, AX._NeedChoice, KeyError, IndexError, TypeError) as e_:
        import os
        if os.environ.get('RBQL_VERIF_DEBUG'):
            print('SK-UNNEST-POS model gave up:', type(e_).__name__, e_)
        return False
    good = {'unnest verdict': 'a refusal ends the expansion with False; otherwise True (also for an empty list)', 'unnest count': 'one emission per list element, none for an empty list',
            'unnest order': 'one output record per list element, in list order, the marker replaced by the element', 'unnest copy': 'every emission gets a list of its own; the input record is left untouched',
            'unnest position': 'the position of the UNNEST marker is located in the record of the current call'}
    for k in ('unnest verdict', 'unnest count', 'unnest order', 'unnest copy'):
        rep.decide(k not in bad, k, fd, '{} ({} abstract runs)'.format(good[k], n), bad.get(k, ''))
    return True


def rule_sk_unnest_pos(cx, rep, port):
    from ..snippet import inline_single_defs
    """select_unnested: the position that receives each list element is found in the record of the *current* call"""
    p = cx.port(port)
    mod = cx.engine_mod(port)
    fd = p.func(mod, 'compile_and_run.select_unnested' if port == 'py' else 'select_unnested')
    params = [a.arg for a in fd.args.args]
    folded = params[-1]
    modelled = _unnest_model(cx, rep, port, p, mod, fd)
    if not modelled:
        _unnest_verdict(cx, rep, port, fd)
    stores = [n for n in walk_no_nested(fd) if isinstance(n, ast.Assign) and isinstance(n.targets[0], ast.Subscript) and not isinstance(n.targets[0].slice, ast.Slice)]
    stores = [s for s in stores if isinstance(s.targets[0].value, ast.Name)]
    if len(stores) == 1 and isinstance(stores[0].targets[0].slice, ast.Name):
        st = stores[0]
        pos = st.targets[0].slice
    else:
        # position used through slices: folded[:pos] + [v] + folded[pos + 1:]
        cands = set()
        for x in ast.walk(fd):
            if isinstance(x, ast.Subscript) and isinstance(x.slice, ast.Slice) and is_name(x.value, folded):
                for b in (x.slice.lower, x.slice.upper):
                    if b is not None:
                        cands |= {n_.id for n_ in ast.walk(b) if isinstance(n_, ast.Name)}
            if isinstance(x, ast.Call) and isinstance(x.func, ast.Attribute) and x.func.attr in ('slice', 'substring', 'splice') and is_name(x.func.value, folded):
                for b in x.args[:2]:
                    cands |= {n_.id for n_ in ast.walk(b) if isinstance(n_, ast.Name)}
        cands -= {folded}
        if len(cands) != 1:
            raise Undecided('select_unnested: substitution position not recognised', fd)
        st = fd
        pos = ast.Name(id=cands.pop(), ctx=ast.Load())
    defs = [n for n in walk_no_nested(fd) if isinstance(n, ast.Assign) and any(is_name(t, pos.id) for t in n.targets)]
    bad = []
    good = 0
    for d in defs:
        v = d.value
        if is_none(v):
            continue
        txt = node_text(v, 200)
        reads_state = any(isinstance(x, ast.Attribute) and dotted(x.value) in ('query_context', 'self', 'this') for x in ast.walk(v))
        if reads_state:
            bad.append(d)
            continue
        # py: `unnest_pos = i` inside `for i, x in enumerate(folded_fields)` ; js: folded_fields.findIndex(...)
        if folded in names_in(v):
            good += 1
            continue
        if isinstance(v, ast.Name):
            loops = [lp for lp in walk_no_nested(fd) if isinstance(lp, ast.For) and v.id in names_in(lp.target) and folded in names_in(lp.iter) and any(d is x for x in ast.walk(lp))]
            if loops:
                good += 1
                continue
        bad.append(d)
    if bad:
        rep.violated('unnest position', bad[0], 'the UNNEST position is taken from `{}` instead of being located in the current record: with star items and records of different lengths the element lands in the wrong field'.format(node_text(bad[0].value, 80)))
    elif good:
        rep.holds('unnest position', st, 'the position of the UNNEST marker is located in the record of the current call')
    else:
        rep.undecided('unnest position', st, 'definition of the substitution index not recognised')
    if port == 'js':
        # Array.prototype.concat spreads an argument that is itself an array: an UNNEST element handed to concat() bare (not
        # wrapped in an array literal) puts its *items* into the record when the element is a list
        for c in ast.walk(fd):
            if isinstance(c, ast.Call) and isinstance(c.func, ast.Attribute) and c.func.attr == 'concat':
                bare = [a for a in c.args if not isinstance(a, (ast.List, ast.Tuple)) and 'unnest_list' in node_text(inline_single_defs(a, fd, depth=2, any_value=True), 200)]
                if bare:
                    rep.violated('unnest element placement', c, '`{}` hands the UNNEST element to concat() unwrapped: concat spreads array-valued elements, so a list element contributes several fields (or none) instead of exactly one'.format(node_text(c, 80)))
                    return
    if modelled:
        return
    # a fresh copy per element, elements in order, verdict propagated
    loops = [lp for lp in walk_no_nested(fd) if isinstance(lp, ast.For) and 'unnest_list' in node_text(lp.iter, 200)]
    if len(loops) != 1:
        comps = [c_ for c_ in ast.walk(fd) if isinstance(c_, (ast.ListComp, ast.GeneratorExp)) and any('unnest_list' in node_text(g_.iter, 200) for g_ in c_.generators)]
        if comps:
            return   # expansion by comprehension: order is the list order; verdict handling is judged by 'unnest verdict'
        rep.undecided('unnest expansion', fd, 'loop over unnest_list not found')
        return
    lp = loops[0]
    it = lp.iter
    plain = 'sorted' not in node_text(it) and 'reversed' not in node_text(it) and not (isinstance(it, ast.Subscript))
    rep.decide(plain, 'unnest order', lp, 'one output record per list element, in list order', 'the UNNEST list is not iterated in its own order / completely (`{}`)'.format(node_text(it)))
    from ..idioms import copy_source
    copies = [n for n in ast.walk(fd) if isinstance(n, (ast.Assign,)) and copy_source(n.value) is not None and is_name(copy_source(n.value), folded)] + [n for n in ast.walk(fd) if isinstance(n, ast.Call) and isinstance(n.func, ast.Attribute) and n.func.attr == 'slice' and any(c is n for x in walk_no_nested(lp) for c in ast.walk(x))]
    in_loop = [c for c in copies if any(c is x for x in ast.walk(lp))]
    rep.decide(bool(in_loop), 'unnest copies', in_loop[0] if in_loop else lp, 'each emitted record is a fresh copy', 'the records emitted for one UNNEST list share a single list object')


def _unnest_verdict(cx, rep, port, fd):
    """after select_simple refuses (returns false) no further element of the UNNEST list is emitted"""
    calls = [c for c in ast.walk(fd) if isinstance(c, ast.Call) and call_name(c) == 'select_simple']
    if not calls:
        rep.undecided('unnest verdict', fd, 'select_simple call not found in select_unnested')
        return
    # one emission per element of the list, none for an empty list: a select_simple call that is not inside the iteration over the
    # list (and not behind a test of the list's length) runs even when the list is empty
    for c in calls:
        anc = getattr(c, 'parent', None)
        in_iter, len_guard = False, False
        while anc is not None and anc is not fd:
            if isinstance(anc, (ast.For, ast.While, ast.ListComp, ast.GeneratorExp)) or (isinstance(anc, (ast.Lambda, ast.FunctionDef)) and anc is not fd):
                in_iter = True
            if isinstance(anc, ast.If):
                tt = node_text(anc.test, 200)
                if 'len(' in tt or 'length' in tt or 'unnest_list' in tt:
                    len_guard = True
            anc = getattr(anc, 'parent', None)
        if not in_iter and not len_guard:
            rep.violated('unnest count', c, 'select_simple is called outside the iteration over the UNNEST list and without a test of its length: for an empty list a record is still emitted (with a missing value at the UNNEST position) instead of none')
            return
    for c in calls:
        par = getattr(c, 'parent', None)
        # inside a list comprehension: every element is evaluated before all()/any() looks at the verdicts
        anc = par
        in_listcomp = False
        in_gen = False
        while anc is not None and anc is not fd:
            if isinstance(anc, ast.ListComp):
                in_listcomp = True
            if isinstance(anc, ast.GeneratorExp):
                in_gen = True
            anc = getattr(anc, 'parent', None)
        if in_listcomp or (isinstance(par, ast.Call) and isinstance(par.func, ast.Attribute) and par.func.attr in ('map', 'forEach')):
            rep.violated('unnest verdict', c, 'select_simple is called for every element of the UNNEST list before any verdict is looked at (list comprehension / map): after the writer refuses (TOP reached, broken pipe) the remaining elements are still written')
            return
        if in_gen:
            rep.holds('unnest verdict', c, 'generator expression consumed by all(): stops at the first refusal')
            return
        neg = isinstance(par, ast.UnaryOp) and isinstance(par.op, ast.Not) and isinstance(getattr(par, 'parent', None), ast.If)
        if neg:
            iff = par.parent
            first = iff.body[0] if iff.body else None
            ok = isinstance(first, ast.Break) or (isinstance(first, ast.Return) and first.value is not None and isinstance(first.value, ast.Constant) and first.value.value is False)
            rep.decide(ok, 'unnest verdict', c, 'a refusal ends the expansion with False', 'a refusal of select_simple does not end the UNNEST expansion')
        elif isinstance(par, ast.Expr):
            rep.violated('unnest verdict', c, 'the verdict of select_simple is dropped inside select_unnested')
        else:
            rep.undecided('unnest verdict', c, 'use of the select_simple verdict not recognised')


def rule_sk_relay(cx, rep, port):
    """select_simple hands the writer's verdict on: it returns false exactly on the paths on which writer.write() refused (so the
    main loop stops and nothing is written after a refusal), true on the others, and writes once per call.  Path summaries."""
    from .. import pathsem
    p = cx.port(port)
    mod = cx.engine_mod(port)
    fd = p.func(mod, 'select_simple')
    ps = pathsem.paths(fd)
    if ps is None:
        rep.undecided('select_simple verdict', fd, 'select_simple is not summarisable as paths')
        return

    def strip(e):
        # await x, bool(x), Boolean(x), not not x: the value of x as a verdict
        while True:
            if isinstance(e, ast.Await):
                e = e.value
            elif isinstance(e, ast.Call) and dotted(e.func) in ('bool', 'Boolean') and len(e.args) == 1 and not e.keywords:
                e = e.args[0]
            elif isinstance(e, ast.UnaryOp) and isinstance(e.op, ast.Not) and isinstance(e.operand, ast.UnaryOp) and isinstance(e.operand.op, ast.Not):
                e = e.operand.operand
            elif isinstance(e, ast.IfExp) and is_true(e.body) and is_false(e.orelse):
                e = e.test
            else:
                return e

    def is_write(e):
        e = strip(e)
        return isinstance(e, ast.Call) and isinstance(e.func, ast.Attribute) and e.func.attr == 'write' and (dotted(e.func.value) or '').endswith('writer')
    n_ref = n_ok = 0
    for q in ps:
        if q.kind == 'raise':
            continue
        verdicts = []
        for atom, pol in pathsem.atoms(q.conds):
            if is_write(atom):
                verdicts.append(pol)
        val = strip(q.value) if q.kind == 'return' and q.value is not None else None
        direct = val is not None and is_write(val)
        # the entry handed to the writer is built for this call: not one of the caller's own arrays extended in place
        # (select_unnested calls select_simple once per list element with the same sort key; a buffering writer keeps every entry)
        params_ = {a.arg for a in fd.args.args}
        grown = {c.func.value.id for c in q.calls if isinstance(c, ast.Call) and isinstance(c.func, ast.Attribute) and c.func.attr in ('push', 'append', 'extend', 'unshift', 'insert', 'splice') and isinstance(c.func.value, ast.Name) and c.func.value.id in params_}
        grown |= {t_.value.id for t_, _ in q.stores if isinstance(t_, ast.Subscript) and isinstance(t_.value, ast.Name) and t_.value.id in params_}
        handed = []
        for e_ in [a_ for a_, _ in pathsem.atoms(q.conds)] + list(q.calls) + ([q.value] if q.value is not None else []):
            e_ = strip(e_)
            if is_write(e_):
                handed.extend(strip(a_) for a_ in strip(e_).args)
        shared = [a_ for a_ in handed if isinstance(a_, ast.Name) and a_.id in grown]
        if shared:
            rep.violated('select_simple entry', q.node, 'the entry written is the caller\'s own `{}` extended in place: select_unnested passes one sort key for all elements of a list, so a buffering writer ends up with the same object several times (every row of the record shows the last element)'.format(shared[0].id))
            return
        writes = len(verdicts) + (1 if direct else 0) + sum(1 for c in q.calls if is_write(c))
        if writes != 1:
            rep.violated('select_simple writes', q.node, 'a path of select_simple hands the record to the writer {} times (must be exactly once)'.format(writes))
            return
        if direct:
            n_ref += 1
            n_ok += 1
            continue
        if not verdicts:
            rep.violated('select_simple verdict', q.node, 'select_simple drops the verdict of writer.write(): a writer that refuses (TOP reached, pipe closed) cannot stop the query')
            return
        if verdicts[0] is False:
            n_ref += 1
            if not (val is not None and is_false(val)):
                rep.violated('select_simple verdict', q.node, 'when writer.write() refuses, select_simple returns `{}` instead of false: the main loop goes on reading input and offering records to a writer that has said stop'.format(node_text(val, 30) if val is not None else 'nothing'))
                return
        else:
            n_ok += 1
            if not (val is not None and is_true(val)):
                rep.violated('select_simple verdict', q.node, 'after an accepted write select_simple returns `{}` instead of true: the query stops after the first record'.format(node_text(val, 30) if val is not None else 'nothing'))
                return
    if n_ref and n_ok:
        rep.holds('select_simple verdict', fd, 'returns false exactly when writer.write() refused ({} refusing, {} accepting path(s)); one write per call'.format(n_ref, n_ok))
    else:
        rep.undecided('select_simple verdict', fd, 'refusing / accepting paths not both found')


def rule_sk_mainrun(cx, rep, port):
    """compile_and_run evaluates the generated main loop on every path that completes normally: no shortcut skips the scan of the input"""
    p = cx.port(port)
    mod = cx.engine_mod(port)
    car = p.func(mod, 'compile_and_run')
    memo = {}

    def evaluates(call):
        return isinstance(call, ast.Call) and dotted(call.func) in ('exec', 'eval')

    def must_eval(fd, depth=0):
        """True: every normal exit of fd is preceded by the evaluation; False + witness: some normal exit is not; None: fd never evaluates"""
        if id(fd) in memo:
            return memo[id(fd)]
        memo[id(fd)] = (None, None)

        def carries(n):
            def pred(x):
                if evaluates(x):
                    return True
                if depth < 2 and isinstance(x, ast.Call) and isinstance(x.func, ast.Name):
                    g_ = p.func(mod, x.func.id, required=False) or p.func(mod, '{}.{}'.format(fd.name, x.func.id), required=False)
                    if g_ is not None and g_ is not fd and must_eval(g_, depth + 1)[0] is True:
                        return True
                return False
            return cfgmod.node_contains(n, pred)
        g = cfgmod.CFG(fd)
        marked = [n for n in g.nodes if n.ast is not None and carries(n)]
        if not marked:
            memo[id(fd)] = (None, None)
            return memo[id(fd)]
        ids = {n.id for n in marked}
        # a test hook: a parameter with a false default that no library call site sets (`unit_test_mode`) stays false
        params = fd.args.args
        defaults = dict(zip([a.arg for a in params[len(params) - len(fd.args.defaults):]], fd.args.defaults))
        off = {a for a, d in defaults.items() if isinstance(d, ast.Constant) and d.value in (False, None)}
        for m_ in p.modules.values():
            for c_ in ast.walk(m_):
                if isinstance(c_, ast.Call) and (dotted(c_.func) or '').split('.')[-1] == fd.name:
                    names_ = [a.arg for a in params]
                    for i_, a_ in enumerate(c_.args):
                        if i_ < len(names_):
                            off.discard(names_[i_])
                    for k_ in c_.keywords:
                        off.discard(k_.arg)

        def edge_ok(n, s_, lab):
            t_ = getattr(n, 'ast', None)
            if n.kind == 'test' and isinstance(t_, ast.Name) and t_.id in off and lab == 'T':
                return False
            return True
        path = g.find_path(g.entry, lambda n: n is g.exit, avoid=lambda n: n.id in ids, edge_ok=edge_ok)
        memo[id(fd)] = (path is None, path)
        return memo[id(fd)]
    verdict, path = must_eval(car)
    if verdict is None:
        rep.undecided('main loop evaluation', car, 'no exec/eval of the generated code is reachable from compile_and_run (through at most two helper calls)')
        return
    if verdict:
        rep.holds('main loop evaluation', car, 'every normally completing path of compile_and_run passes the exec/eval of the generated main loop')
    else:
        steps = [n for n in path if getattr(n, 'ast', None) is not None]
        last = steps[-1] if steps else None
        rep.violated('main loop evaluation', last.ast if last is not None else car, 'compile_and_run can complete normally without evaluating the generated main loop (path: {}): for such a query no input record is read and nothing is written, whatever the query asks for'.format(' -> '.join(node_text(n.ast, 50) for n in steps[-3:])))
