"""HD / VA rules (C07, C09): header synthesis and variable binding."""
import ast
import sys

from .. import regexlang as R
from ..core import Undecided, node_text
from ..idioms import is_name, negated
from ..model import call_name, const_value, dotted, is_none, names_in, walk_no_nested, NOCONST
from ..snippet import alpha_equal, contains_stmts, contains_expr


# ------------------------------------------------------------------------------------------------ header
class _AttrOfMissing(Exception):
    pass


def _hd_decision_table(rep, p, mod, fd, lp):
    """the names one column info contributes, decided by model checking: the per-column code (inline in the loop or in a helper
    the loop calls) is summarised as paths (conditions -> contribution) and evaluated for each of the 257 abstract column infos
    (missing / star / table None,a,b,other / name / alias / index / index within input header / within join header); the
    contribution must be the one the naming rules prescribe.  Layout (if/elif chain, early returns, helper) does not matter."""
    import itertools
    from .. import pathsem
    qv = lp.target.id if isinstance(lp.target, ast.Name) else None
    in_h, jn_h = fd.args.args[0].arg, fd.args.args[1].arg
    rets = [r for r in walk_no_nested(fd) if isinstance(r, ast.Return) and isinstance(r.value, ast.Name)]
    if qv is None or not rets:
        rep.undecided('naming rules', lp, 'naming loop not recognised')
        return
    out = rets[-1].value.id

    def norm(e):
        return node_text(e, 300).replace(' ', '').replace('"', "'")

    def contribution_of_value(v):
        # value added to the header: list display, header list, or concatenation of header lists
        if isinstance(v, ast.List):
            if not v.elts:
                return ('many', ())
            if len(v.elts) == 1:
                return ('one', norm(v.elts[0]))
            return None
        parts = []

        def flat(x):
            if isinstance(x, ast.BinOp) and isinstance(x.op, ast.Add):
                flat(x.left)
                flat(x.right)
            elif isinstance(x, ast.Call) and isinstance(x.func, ast.Attribute) and x.func.attr == 'concat' and len(x.args) == 1:
                flat(x.func.value)
                flat(x.args[0])
            else:
                parts.append(x)
        flat(v)
        names = []
        for x in parts:
            if isinstance(x, ast.Name) and x.id in (in_h, jn_h):
                names.append('input' if x.id == in_h else 'join')
            elif isinstance(x, ast.List) and len(x.elts) == 1 and len(parts) == 1:
                return ('one', norm(x.elts[0]))
            elif isinstance(x, ast.List) and not x.elts:
                continue
            else:
                return None
        return ('many', tuple(names))
    summaries = []    # (atoms, contribution)
    body = lp.body
    helper_call = None
    if len(body) == 1:
        st = body[0]
        v = None
        if isinstance(st, ast.AugAssign) and is_name(st.target, out):
            v = st.value
        elif isinstance(st, ast.Expr) and isinstance(st.value, ast.Call) and isinstance(st.value.func, ast.Attribute) and st.value.func.attr == 'extend' and is_name(st.value.func.value, out):
            v = st.value.args[0]
        elif isinstance(st, ast.Assign) and is_name(st.targets[0], out) and isinstance(st.value, ast.Call) and isinstance(st.value.func, ast.Attribute) and st.value.func.attr == 'concat' and is_name(st.value.func.value, out):
            v = st.value.args[0]
        elif isinstance(st, ast.Expr) and isinstance(st.value, ast.Call) and isinstance(st.value.func, ast.Attribute) and st.value.func.attr in ('append', 'push') and is_name(st.value.func.value, out) and isinstance(st.value.args[0], ast.Call):
            v = ast.List(elts=[st.value.args[0]], ctx=ast.Load())
        if isinstance(v, ast.Call) and isinstance(v.func, ast.Name) and p.func(mod, v.func.id, required=False) is not None:
            helper_call = v
        elif isinstance(v, ast.List) and len(v.elts) == 1 and isinstance(v.elts[0], ast.Call) and isinstance(v.elts[0].func, ast.Name) and p.func(mod, v.elts[0].func.id, required=False) is not None:
            helper_call = v.elts[0]
            helper_call._wrap_one = True
    if helper_call is not None:
        g = p.func(mod, helper_call.func.id)
        env = {a.arg: arg for a, arg in zip(g.args.args, helper_call.args)}
        ps = pathsem.paths_with_env(g, env)
        if ps is None:
            rep.undecided('naming rules', g, 'helper {} is not loop-free straight-line code'.format(g.name))
            return
        for q in ps:
            if q.kind != 'return':
                rep.undecided('naming rules', q.node, 'helper {} can raise'.format(g.name))
                return
            c = ('one', norm(q.value)) if getattr(helper_call, '_wrap_one', False) else contribution_of_value(q.value)
            summaries.append((pathsem.atoms(q.conds), c, q.node))
    else:
        ps = pathsem.paths_of_block(body)
        if ps is None:
            rep.undecided('naming rules', lp, 'the naming loop body is not loop-free straight-line code')
            return
        for q in ps:
            if q.kind not in ('fall', 'continue'):
                rep.undecided('naming rules', q.node, 'the naming loop can leave early')
                return
            contribs = []
            expanded = False
            for c in q.calls:
                if isinstance(c, ast.Call) and isinstance(c.func, ast.Attribute) and c.func.attr in ('append', 'push') and is_name(c.func.value, out) and c.args:
                    a0 = c.args[0]
                    g = p.func(mod, a0.func.id, required=False) if isinstance(a0, ast.Call) and isinstance(a0.func, ast.Name) else None
                    if g is not None and len(q.calls) == 1 and out not in q.env:
                        # the appended value is computed by a helper: its paths continue this one
                        gps = pathsem.paths_with_env(g, {a.arg: arg for a, arg in zip(g.args.args, a0.args)})
                        if gps is None or any(x.kind != 'return' for x in gps):
                            rep.undecided('naming rules', g, 'helper {} is not loop-free straight-line code that always returns'.format(g.name))
                            return
                        for x in gps:
                            summaries.append((pathsem.atoms(q.conds) + pathsem.atoms(x.conds), ('one', norm(x.value)), x.node))
                        expanded = True
                        continue
                    contribs.append(('one', norm(a0)))
                elif isinstance(c, ast.Call) and isinstance(c.func, ast.Attribute) and c.func.attr == 'extend' and is_name(c.func.value, out) and c.args:
                    contribs.append(contribution_of_value(c.args[0]))
            if out in q.env:
                v = q.env[out]
                # out + X  /  out.concat(X)...: strip the leading accumulator
                lead = v
                while isinstance(lead, ast.BinOp) and isinstance(lead.op, ast.Add):
                    lead = lead.left
                while isinstance(lead, ast.Call) and isinstance(lead.func, ast.Attribute) and lead.func.attr == 'concat':
                    lead = lead.func.value
                if not is_name(lead, out):
                    contribs.append(None)
                else:
                    lead.id = '__acc__'
                    cv = contribution_of_value(v)
                    lead.id = out
                    if cv is None:
                        # remove the accumulator part
                        parts = []

                        def flat(x):
                            if isinstance(x, ast.BinOp) and isinstance(x.op, ast.Add):
                                flat(x.left)
                                flat(x.right)
                            elif isinstance(x, ast.Call) and isinstance(x.func, ast.Attribute) and x.func.attr == 'concat' and len(x.args) >= 1 and not x.keywords:
                                flat(x.func.value)
                                for a_ in x.args:
                                    flat(a_)
                            else:
                                parts.append(x)
                        flat(v)
                        rest = [x for x in parts if not is_name(x, out)]
                        names = []
                        okp = True
                        for x in rest:
                            if isinstance(x, ast.Name) and x.id in (in_h, jn_h):
                                names.append('input' if x.id == in_h else 'join')
                            elif isinstance(x, ast.List) and len(x.elts) == 1 and len(rest) == 1:
                                contribs.append(('one', norm(x.elts[0])))
                                names = None
                                break
                            elif isinstance(x, ast.List) and not x.elts:
                                continue
                            else:
                                okp = False
                        if not okp:
                            contribs.append(None)
                        elif names is not None:
                            contribs.append(('many', tuple(names)))
                    else:
                        contribs.append(cv)
            if expanded:
                continue
            if any(c is None for c in contribs) or len(contribs) > 1:
                rep.undecided('naming rules', lp, 'a path through the naming loop adds to the header in a way that was not recognised')
                return
            summaries.append((pathsem.atoms(q.conds), contribs[0] if contribs else ('many', ()), lp))

    Q = qv if helper_call is None else None

    def ev(atom, v):
        if isinstance(atom, ast.BoolOp):
            # short-circuit: operands after the deciding one are not evaluated
            for x in atom.values:
                r = ev(x, v)
                if r is None:
                    return None
                if isinstance(atom.op, ast.And) and not r:
                    return False
                if isinstance(atom.op, ast.Or) and r:
                    return True
            return isinstance(atom.op, ast.And)
        if isinstance(atom, ast.UnaryOp) and isinstance(atom.op, ast.Not):
            r = ev(atom.operand, v)
            return None if r is None else not r
        if isinstance(atom, ast.Compare) and len(atom.ops) == 1 and isinstance(atom.ops[0], (ast.IsNot, ast.NotEq)):
            flip = ast.Is if isinstance(atom.ops[0], ast.IsNot) else ast.Eq
            r = ev(ast.Compare(left=atom.left, ops=[flip()], comparators=atom.comparators), v)
            return None if r is None else not r
        t = norm(atom)
        q = qname
        if v['none'] and (q + '.') in t:
            raise _AttrOfMissing(atom)
        table = {q + '.table_nameisNone': v['table'] is None, q + ".table_name=='a'": v['table'] == 'a', q + ".table_name=='b'": v['table'] == 'b',
                 "'a'==" + q + '.table_name': v['table'] == 'a', "'b'==" + q + '.table_name': v['table'] == 'b',
                 q + 'isNone': v['none'], q + '.is_star': v['star'], q + '.column_nameisNone': not v['cname'], q + '.alias_nameisNone': not v['alias'],
                 q + '.column_indexisNone': not v['cidx'],
                 q + '.column_index<len(' + in_h + ')': v['lt_in'], q + '.column_index<len(' + jn_h + ')': v['lt_join'],
                 'len(' + in_h + ')>' + q + '.column_index': v['lt_in'], 'len(' + jn_h + ')>' + q + '.column_index': v['lt_join'],
                 q + '.column_index>=len(' + in_h + ')': not v['lt_in'], q + '.column_index>=len(' + jn_h + ')': not v['lt_join']}
        return table.get(t)
    qname = norm(helper_call.args[0]) if helper_call is not None and helper_call.args else qv
    colk = {"'col{}'.format(len(%s)+1)" % out, "'col'+(len(%s)+1)" % out, "'col'+str(len(%s)+1)" % out, "'col%d'%(len({})+1)".format(out), "f'col{len(%s)+1}'" % out}

    def spec(v):
        if v['none']:
            return 'default'
        if v['star']:
            return {None: ('many', ('input', 'join')), 'a': ('many', ('input',)), 'b': ('many', ('join',))}.get(v['table'], ('many', ()))
        if v['cname']:
            return ('one', qname + '.column_name')
        if v['alias']:
            return ('one', qname + '.alias_name')
        if v['cidx']:
            if v['table'] == 'a' and v['lt_in']:
                return ('one', '{}[{}.column_index]'.format(in_h, qname))
            if v['table'] == 'b' and v['lt_join']:
                return ('one', '{}[{}.column_index]'.format(jn_h, qname))
        return 'default'
    vals = [{'none': True, 'star': False, 'table': None, 'cname': False, 'alias': False, 'cidx': False, 'lt_in': False, 'lt_join': False}]
    for star, table, cname, alias, cidx, lt_in, lt_join in itertools.product((True, False), (None, 'a', 'b', 'x'), (True, False), (True, False), (True, False), (True, False), (True, False)):
        vals.append({'none': False, 'star': star, 'table': table, 'cname': cname, 'alias': alias, 'cidx': cidx, 'lt_in': lt_in, 'lt_join': lt_join})
    n_ok = 0
    for v in vals:
        taken = None
        for atoms_, contrib, node in summaries:
            ok = True
            for atom, pol in atoms_:
                try:
                    r = ev(atom, v)
                except _AttrOfMissing as e:
                    rep.violated('naming rules', node, 'an attribute of the column info is read (`{}`) on a path taken when the column info is missing: a select item without column info makes header naming crash'.format(node_text(e.args[0], 60)))
                    return
                if r is None:
                    rep.undecided('naming rules', node, 'condition `{}` is outside the abstract column-info domain'.format(node_text(atom, 80)))
                    return
                if r != pol:
                    ok = False
                    break
            if ok:
                taken = (contrib, node)
                break
        if taken is None:
            rep.undecided('naming rules', lp, 'no path for column info {}'.format(v))
            return
        got = taken[0]
        want = spec(v)
        if want == 'default':
            good = got is not None and got[0] == 'one' and got[1] in colk
        else:
            good = got == want
        if not good:
            desc = 'missing column info' if v['none'] else ', '.join('{}={}'.format(k, v[k]) for k in ('star', 'table', 'cname', 'alias', 'cidx', 'lt_in', 'lt_join'))
            rep.violated('naming rules', taken[1], 'for a column info with [{}] the header gets {} but the naming rules prescribe {}'.format(desc, got, 'col<position>' if want == 'default' else want))
            return
        n_ok += 1
    rep.holds('naming rules', lp, 'all {} abstract column infos are named as prescribed: missing -> colK; star -> input+join / input / join names; column name; alias; index within its header -> source name; otherwise colK'.format(n_ok))


def _hd_model(cx, rep, port, p, mod, fd):
    """select_output_header decided on its abstract outcomes: the headers are lists of name tokens (A0 A1 / B0), the select list is a
    list of column-info objects of each kind (unparsed, star of each table, named, aliased, indexed inside / outside its own table's
    header), and the header returned is compared with the one the naming rules give.  True when every scenario was evaluated."""
    from .. import absexec as AX

    def tok(n):
        return AX.Abs('Name', id=n)
    A0, A1, B0, N1, L1 = tok('A0'), tok('A1'), tok('B0'), tok('N1'), tok('L1')
    E0 = AX.Abs('Name', id="E0 (the empty name '')", truth=False)      # a header cell may be empty: still the column's name

    def qci(**kw):
        d = dict(table_name=None, column_index=None, column_name=None, is_star=False, alias_name=None)
        d.update(kw)
        return AX.Abs('QCI', **d)
    star = lambda t: qci(is_star=True, table_name=t)            # noqa: E731
    idx = lambda t, i: qci(table_name=t, column_index=i)         # noqa: E731
    H, J = [A0, A1], [B0]
    scen = [
        ('naming rules', 'indexed columns', H, J, [None, idx('a', 0), idx('a', 1), idx('a', 2), idx('b', 0), idx('b', 1), idx('a', 5)], ['col1', A0, A1, 'col4', B0, 'col6', 'col7']),
        ('naming rules', 'stars, names, aliases', H, J, [star(None), qci(column_name=N1, table_name='a'), qci(alias_name=L1), star('a'), star('b'), None], [A0, A1, B0, N1, L1, A0, A1, B0, 'col9']),
        ('naming rules', 'a column whose header cell is empty', [A0, E0], [E0], [idx('a', 1), idx('b', 0), star(None)], [E0, E0, A0, E0, E0]),
        ('naming rules', 'no join table', H, None, [star(None), idx('b', 0), star('b'), qci()], [A0, A1, 'col3', 'col4']),
        ('no input header', 'no header, no alias', None, None, [idx('a', 0), None], None),
        ('no input header', 'no header, alias', None, None, [idx('a', 0), qci(alias_name=L1), None], ['col1', L1, 'col3']),
        ('no input header', 'no header, alias next to a named column', None, None, [qci(column_name=N1), qci(alias_name=L1), idx('a', 0)], [N1, L1, 'col3']),
        ('no input header', 'no header, alias and star', None, None, [star(None), qci(alias_name=L1)], 'RbqlParsingError'),
        ('no input header', 'no header, alias and a.*', None, None, [qci(alias_name=L1), star('a')], 'RbqlParsingError'),
        ('no input header', 'no header, alias and b.*', None, None, [star('b'), qci(alias_name=L1)], 'RbqlParsingError'),
        ('alias detection', 'unparsed columns only', None, None, [None, None], None),
        ('alias detection', 'unparsed column next to an alias', None, None, [None, qci(alias_name=L1)], ['col1', L1]),
    ]

    def on_attr(ex, node, obj, attr):
        if isinstance(obj, AX.Abs) and obj.kind == 'QCI':
            return ('nomemo', obj.props.get(attr))
        return AX.NOT_HANDLED

    def on_call(ex, node, fname, recv, args):
        if fname.split('.')[-1].endswith('Error'):
            return AX.Abs(fname.split('.')[-1])
        return AX.NOT_HANDLED

    def show(v):
        if isinstance(v, list):
            return '[' + ', '.join(show(x) for x in v) + ']'
        if isinstance(v, AX.Abs):
            return v.props.get('id', v.kind)
        return repr(v)
    bad = {}
    for cls, title, ih, jh, infos, want in scen:
        ex = AX.Explorer(p, mod, on_call=on_call, on_attr=on_attr, max_choices=1)
        try:
            runs, cut = ex.explore(fd, [None if ih is None else list(ih), None if jh is None else list(jh), list(infos)])
        except Undecided as e_:
            import os
            if os.environ.get('RBQL_VERIF_DEBUG'):
                print('HD-TABLE model gave up:', e_)
            return False
        if len(runs) != 1:
            return False
        kind, val, node = runs[0].outcome
        if isinstance(want, str):
            ok = kind == 'raise' and isinstance(val, AX.Abs) and val.kind == want
            got = 'raises {}'.format(val.kind if isinstance(val, AX.Abs) else val) if kind == 'raise' else 'returns ' + show(val)
        elif kind == 'raise':
            ok, got = False, 'raises {}'.format(val.kind if isinstance(val, AX.Abs) else val)
        elif want is None:
            ok, got = val is None, 'returns ' + show(val)
        else:
            ok = isinstance(val, list) and len(val) == len(want) and all((a is b) or (isinstance(a, str) and isinstance(b, str) and a == b) for a, b in zip(val, want))
            got = 'returns ' + show(val)
        if not ok:
            bad.setdefault(cls, '{} - headers {} / {}, select list of {} item(s): {} instead of {}'.format(title, show(ih) if ih is not None else 'none', show(jh) if jh is not None else 'none', len(infos), got, ('raising ' + want) if isinstance(want, str) else show(want)))
    good = {'naming rules': 'unparsed -> colK; star -> the header(s) of its table(s); column name; alias; index inside its own table\'s header -> that name, otherwise colK (K = position in the output)',
            'no input header': 'without an input header: no header at all unless an alias is used; star together with alias is a parsing error',
            'alias detection': 'alias presence = some column info exists and has an alias'}
    for cls in ('naming rules', 'no input header', 'alias detection'):
        rep.decide(cls not in bad, cls, fd, good[cls] + ' ({} abstract select lists evaluated)'.format(len([s_ for s_ in scen if s_[0] == cls])), 'select_output_header: ' + bad.get(cls, ''))
    return True


def rule_hd_table(cx, rep, port):
    """select_output_header: decision table total and ordered: None -> colK; star -> header lists; column name; alias;
    index in range -> source name; else colK"""
    p = cx.port(port)
    mod = cx.engine_mod(port)
    fd = p.func(mod, 'select_output_header')
    if _hd_model(cx, rep, port, p, mod, fd):
        return
    loops = [n for n in fd.body if isinstance(n, ast.For)]
    if not loops:
        raise Undecided('select_output_header: naming loop not found', fd)
    lp = loops[-1]
    _hd_decision_table(rep, p, mod, fd, lp)
    # alias presence: a name that means "some column info has an alias" (flag loop, any(), some())
    from ..idioms import exists_predicates
    from .. import pathsem
    ex = exists_predicates(fd)
    alias_flags = []
    for name, (pred, var, seq) in ex.items():
        t_ = node_text(pred, 200).replace(' ', '')
        if '{}.alias_nameisnotNone'.format(var) in t_ or '{}.alias_name!=None'.format(var) in t_:
            alias_flags.append((name, pred, var))
    if not alias_flags:
        from ..idioms import forall_predicates
        for name, (pred, var, seq) in forall_predicates(fd).items():
            t_ = node_text(pred, 200).replace(' ', '')
            if '{}.alias_nameisnotNone'.format(var) in t_ or '{}.alias_name!=None'.format(var) in t_:
                rep.violated('alias detection', pred, '`{}` is true only when *every* column has an alias: a select list that mixes aliased and plain columns (or a star) over a table without header is treated as having no alias, so no header is produced and the star-with-alias error is not raised'.format(name))
                return
    if len(alias_flags) != 1:
        rep.undecided('alias detection', fd, 'no single name of select_output_header means "some column info has an alias" ({} candidates among {})'.format(len(alias_flags), sorted(ex)))
        return
    aflag, apred, avar = alias_flags[0]
    guarded = '{}isnotNone'.format(avar) in node_text(apred, 200).replace(' ', '')
    if not guarded:
        # the sequence may have been cleared of the missing entries beforehand: [x for x in infos if x is not None] / filter(..)
        seq_ = ex[aflag][2]
        if isinstance(seq_, ast.Name):
            ds_ = [d for d in walk_no_nested(fd) if isinstance(d, ast.Assign) and len(d.targets) == 1 and is_name(d.targets[0], seq_.id)]
            seq_ = ds_[0].value if len(ds_) == 1 else seq_
        if isinstance(seq_, (ast.ListComp, ast.GeneratorExp)) and len(seq_.generators) == 1 and isinstance(seq_.generators[0].target, ast.Name) and is_name(seq_.elt, seq_.generators[0].target.id):
            tv = seq_.generators[0].target.id
            guarded = any('{}isnotNone'.format(tv) in node_text(c_, 100).replace(' ', '') for c_ in seq_.generators[0].ifs)
        elif isinstance(seq_, ast.Call) and isinstance(seq_.func, ast.Attribute) and seq_.func.attr == 'filter' and seq_.args:
            fn_ = seq_.args[0]
            body_ = fn_.body if isinstance(fn_, ast.Lambda) else getattr(getattr(fn_, 'js_function_ref', None), 'body', None)
            guarded = body_ is not None and 'isnotNone' in node_text(body_ if isinstance(body_, ast.AST) else ast.Module(body=body_, type_ignores=[]), 200).replace(' ', '')
    rep.decide(guarded, 'alias detection', apred, 'alias presence = some column info exists and has an alias', 'the alias test `{}` dereferences missing column infos (None entries stand for unparsable items)'.format(node_text(apred, 80)))
    # without an input header: no header at all unless aliases are used; otherwise both source headers count as empty
    hdr = fd.args.args[0].arg
    ps = pathsem.paths(fd)
    if ps is None:
        rep.undecided('no input header', fd, 'select_output_header is not summarisable as paths')
    else:
        n_none = n_go = 0
        bad = None
        for q in ps:
            if q.kind == 'raise':
                continue
            no_hdr = None
            has_alias = None
            for atom, pol in pathsem.atoms(q.conds):
                if isinstance(atom, ast.Compare) and len(atom.ops) == 1 and is_name(atom.left, hdr) and is_none(atom.comparators[0]) and isinstance(atom.ops[0], (ast.Is, ast.Eq)):
                    no_hdr = pol if no_hdr is None else no_hdr     # the first test sees the parameter itself
                if is_name(atom, aflag) or (isinstance(atom, ast.Call) and ast.dump(atom) == ast.dump(pathsem.subst(ast.Name(id=aflag, ctx=ast.Load()), q.env))):
                    has_alias = pol
            if not no_hdr:
                continue
            returns_none = q.kind == 'return' and (q.value is None or is_none(q.value))
            if returns_none:
                n_none += 1
                if has_alias is not False:
                    bad = (q, 'returns no header although aliases may be present')
            else:
                n_go += 1
                if has_alias is not True:
                    bad = (q, 'builds a header for a table without header although no alias is used')
        if bad is not None:
            rep.violated('no input header', bad[0].node if bad[0].node is not None else fd, 'without an input header the function {}'.format(bad[1]))
        elif n_none and n_go:
            rep.holds('no input header', fd, 'without an input header an output header exists exactly when aliases are used')
        else:
            rep.undecided('no input header', fd, 'paths for "no input header" not recognised ({} returning None, {} continuing)'.format(n_none, n_go))
    rets = [r for r in walk_no_nested(fd) if isinstance(r, ast.Return) and r.value is not None and not is_none(r.value)]
    rep.decide(len(rets) == 1 and is_name(rets[0].value, 'output_header'), 'result', rets[0] if rets else fd, 'returns the assembled header', 'does not return the assembled header')


def _column_info_model(cx, p, fd):
    """column_info_from_node evaluated on abstract syntax nodes of every shape ast.parse of this interpreter produces for a select item
    (aN, name, star, a.name, a.*, a[N], a["name"], c.name, c[N], a[N+1], another expression with / without an alias): list of problems, or
    None when the function is outside the abstract interpreter"""
    from .. import absexec as AX
    STAR = p.module_consts('rbql_engine')
    star = '__RBQL_INTERNAL_STAR'

    def node(cls, **fields):
        return AX.Abs('Node', cls=cls, fields=fields)
    slice_cls = {type(ast.parse(src).body[0].value.slice).__name__ for src in ('a[1]', 'a["x"]')}
    wrap = (lambda v: node('Index', value=v)) if 'Index' in slice_cls else (lambda v: v)
    a, b, c = node('Name', id='a'), node('Name', id='b'), node('Name', id='c')
    other = node('BinOp', left=node('Name', id='a1'), right=node('Constant', value=1))
    aliased = node('Compare', alias='total')
    cases = [
        ('a1', node('Name', id='a1'), ('a', 0, None, False, None)),
        ('b12', node('Name', id='b12'), ('b', 11, None, False, None)),
        ('*', node('Name', id=star), (None, None, None, True, None)),
        ('foo', node('Name', id='foo'), (None, None, 'foo', False, None)),
        ('a.name', node('Attribute', value=a, attr='name'), (None, None, 'name', False, None)),
        ('b.*', node('Attribute', value=b, attr=star), ('b', None, None, True, None)),
        ('c.name', node('Attribute', value=c, attr='name'), None),
        ('a[3]', node('Subscript', value=a, slice=wrap(node('Constant', value=3))), ('a', 2, None, False, None)),
        ('b["x"]', node('Subscript', value=b, slice=wrap(node('Constant', value='x'))), (None, None, 'x', False, None)),
        ('c[1]', node('Subscript', value=c, slice=wrap(node('Constant', value=1))), None),
        ('a[a1]', node('Subscript', value=a, slice=wrap(node('Name', id='a1'))), None),
        ('a1 + 1', other, None),
        ('<expr> == AS(total)', aliased, (None, None, None, False, 'total')),
    ]
    probs = []
    fields_order = ['table_name', 'column_index', 'column_name', 'is_star', 'alias_name']
    for title, nd, want in cases:
        def on_call(ex, n_, fname, recv, args):
            short = n_.func.attr if isinstance(n_.func, ast.Attribute) else fname
            if fname == 'isinstance' and len(args) == 2 and isinstance(args[0], AX.Abs) and args[0].kind == 'Node':
                classes = [args[1]] if (isinstance(args[1], tuple) and len(args[1]) == 2 and args[1][0] == 'global') or not isinstance(args[1], (list, tuple)) else list(args[1])
                names = [c_[1].split('.')[-1] for c_ in classes if isinstance(c_, tuple) and len(c_) == 2 and c_[0] == 'global']
                if len(names) != len(classes):
                    raise Undecided('isinstance against {!r}'.format(args[1]), n_)
                return args[0].props['cls'] in names or (args[0].props['cls'] == 'Constant' and isinstance(args[0].props['fields'].get('value'), str) and 'Str' in names) \
                    or (args[0].props['cls'] == 'Constant' and isinstance(args[0].props['fields'].get('value'), int) and 'Num' in names)
            if fname == 'isinstance' and len(args) == 2 and not isinstance(args[0], AX.Abs):
                return AX.NOT_HANDLED
            if fname == 'hasattr' and len(args) == 2 and args[0] == ('global', 'ast') and isinstance(args[1], str):
                return hasattr(ast, args[1])
            if short == 'get_field' and len(args) == 2 and isinstance(args[0], AX.Abs) and args[0].kind == 'Node':
                f_ = dict(args[0].props['fields'])
                if args[0].props['cls'] == 'Constant' and 'value' in f_:
                    f_.setdefault('s', f_['value'])
                    f_.setdefault('n', f_['value'])
                return f_.get(args[1])
            if short == 'is_str6' and len(args) == 1:
                return isinstance(args[0], str)
            if short == 'search_for_as_alias_pseudo_function' and len(args) == 1 and isinstance(args[0], AX.Abs):
                return args[0].props['fields'].get('alias')
            if short in ('QueryColumnInfo', 'make_column_info') or (isinstance(n_.func, ast.Name) and n_.func.id == 'QueryColumnInfo'):
                kw = dict(ex.last_kwargs or {})
                for i_, v_ in enumerate(args):
                    kw[fields_order[i_]] = v_
                if short == 'QueryColumnInfo':
                    return tuple(kw.get(k_) for k_ in fields_order)
            return AX.NOT_HANDLED

        def on_attr(ex, n_, obj, attr):
            if isinstance(obj, AX.Abs) and obj.kind == 'Node':
                f_ = obj.props['fields']
                if attr in f_:
                    return f_[attr]
                if obj.props['cls'] == 'Constant' and attr in ('s', 'n') and 'value' in f_:
                    return f_['value']
            return AX.NOT_HANDLED

        def on_name(ex, n_, name):
            if name == 'PY3':
                return True
            return AX.NOT_HANDLED
        ex = AX.Explorer(p, 'rbql_engine', on_call=on_call, on_attr=on_attr, on_name=on_name, max_choices=1)
        try:
            runs, cut = ex.explore(fd, [nd])
        except (Undecided, KeyError, IndexError, TypeError, AttributeError, ValueError) as e_:
            import os
            if os.environ.get('RBQL_VERIF_DEBUG'):
                print('column info model gave up on', title, ':', type(e_).__name__, e_)
            return None
        if cut or len(runs) != 1:
            return None
        kind, val, _n = runs[0].outcome
        if kind != 'return':
            probs.append('`{}` raises'.format(title))
            continue
        got = tuple(val) if isinstance(val, (tuple, list)) and len(val) == 5 else val
        if got != want:
            def show(v):
                return 'no column info' if v is None else '(table {}, index {}, name {}, star {}, alias {})'.format(*v) if isinstance(v, tuple) and len(v) == 5 else repr(v)
            probs.append('`{}` gives {} instead of {}'.format(title, show(got), show(want)))
    return probs


def rule_hd_shapes(cx, rep, port='py'):
    """the node classes tested in the subscript branch of column_info_from_node cover the shapes ast.parse of this interpreter
    produces for a[1] and a["x"]"""
    p = cx.py
    fd = p.func('rbql_engine', 'column_info_from_node')
    probs = _column_info_model(cx, p, fd)
    if probs is not None:
        for key in ('subscript shapes', 'subscript index', 'variable index', 'attribute table'):
            rep.decide(not probs, key, fd, 'aN, names, stars, a.name, a[N], a["name"] map to (table, zero-based index, name); other tables and expressions give no column (13 node shapes evaluated)', 'select items are not mapped to their source columns: ' + '; '.join(probs[:4]))
        _hd_alias_search(cx, rep, p)
        return
    with rep.as_fallback('column_info_from_node is outside the abstract interpreter'):
        _rule_hd_shapes_shape(cx, rep, p, fd)
    _hd_alias_search(cx, rep, p)


def _rule_hd_shapes_shape(cx, rep, p, fd):
    branch = [n for n in fd.body if isinstance(n, ast.If) and 'ast.Subscript' in node_text(n.test)]
    if len(branch) != 1:
        raise Undecided('column_info_from_node: subscript branch not found', fd)
    br = branch[0]
    tested = set()
    for c in ast.walk(br):
        if isinstance(c, ast.Call) and dotted(c.func) == 'isinstance' and len(c.args) == 2:
            d = dotted(c.args[1]) or ''
            if d.startswith('ast.'):
                tested.add(d[4:])
    # shapes produced by the interpreter that runs the repository (static facts about ast.parse, not about /repo code)
    shapes = set()
    for src in ('a[1]', 'a["x"]'):
        sl = ast.parse(src).body[0].value.slice
        shapes.add(type(sl).__name__)
    # an early return on "not isinstance(slice, Index)" makes everything else unreachable
    early = [n for n in br.body if isinstance(n, ast.If) and isinstance(n.body[-1], ast.Return) and 'not isinstance(slice_root, ast.Index)' in node_text(n.test)]
    if early:
        rep.violated('subscript shapes', early[0], 'the subscript branch returns None unless the slice is an ast.Index, but python {}.{} produces {} for a[1] / a["x"]: such items are named colK instead of the source column'.format(sys.version_info[0], sys.version_info[1], sorted(shapes)))
        return
    missing = shapes - tested
    rep.decide(not missing, 'subscript shapes', br, 'slice node classes tested {} cover what this interpreter produces {}'.format(sorted(tested), sorted(shapes)), 'slice node classes {} produced by this interpreter are not handled (tested: {})'.format(sorted(missing), sorted(tested)))
    # N-1 for numeric subscripts
    minus = [n for n in ast.walk(br) if isinstance(n, ast.Assign) and is_name(n.targets[0], 'column_index') and isinstance(n.value, ast.BinOp)]
    okm = minus and all(isinstance(m.value.op, ast.Sub) and isinstance(m.value.right, ast.Constant) and m.value.right.value == 1 for m in minus)
    rep.decide(bool(okm), 'subscript index', minus[0] if minus else br, 'a[N] -> zero-based index N-1', 'a[N] is not converted to the zero-based index N-1')
    # Name branch: aN -> N-1 with the anchored pattern
    nb = [n for n in fd.body if isinstance(n, ast.If) and 'ast.Name' in node_text(n.test)]
    okn = False
    if nb:
        pats = [c.value for c in ast.walk(nb[0]) if isinstance(c, ast.Constant) and isinstance(c.value, str) and '[ab]' in c.value]
        idx = [n for n in ast.walk(nb[0]) if isinstance(n, ast.Assign) and is_name(n.targets[0], 'column_index')]
        okn = len(pats) == 1 and pats[0].startswith('^') and pats[0].endswith('$') and len(idx) == 1 and '- 1' in node_text(idx[0].value)
    rep.decide(okn, 'variable index', nb[0] if nb else fd, 'aN/bN (anchored) -> table and zero-based index', 'aN/bN names are not recognised by an anchored pattern yielding index N-1')
    ab = [n for n in fd.body if isinstance(n, ast.If) and 'ast.Attribute' in node_text(n.test)]
    oka = bool(ab) and "table_name not in ['a', 'b']" in node_text(ab[0], 3000)
    rep.decide(oka, 'attribute table', ab[0] if ab else fd, 'a.name / b.name only', 'attribute access on something other than a/b is treated as a column')


def _hd_alias_search(cx, rep, p):
    al = p.func('rbql_engine', 'search_for_as_alias_pseudo_function')
    root = al.args.args[0].arg
    loops = [n for n in walk_no_nested(al) if isinstance(n, ast.For)]
    if len(loops) == 1:
        it = loops[0].iter
        if isinstance(it, ast.Call) and dotted(it.func) == 'ast.walk' and it.args and is_name(it.args[0], root) and not any(isinstance(x, ast.Return) and x.pos < loops[0].pos for x in walk_no_nested(al)):
            rep.holds('alias search', loops[0], 'the alias pseudo-call is searched in the whole expression tree')
        elif root in names_in(it):
            rep.violated('alias search', loops[0], 'the alias pseudo-call is searched only in `{}`, not in the whole expression tree: `==` binds tighter than or/and/not/ternary, so for such expressions the alias is not at the top and the column loses its alias name'.format(node_text(it, 80)))
        else:
            rep.undecided('alias search', loops[0], 'alias search traversal not recognised')
    else:
        early = [x for x in walk_no_nested(al) if isinstance(x, ast.If) and 'isinstance' in node_text(x.test) and isinstance(x.body[0], ast.Return)]
        if early:
            rep.violated('alias search', early[0], 'the alias search gives up unless the expression root has a particular node type (`{}`): aliases on boolean/ternary expressions are lost'.format(node_text(early[0].test, 80)))
        else:
            rep.undecided('alias search', al, 'alias search loop not found')
    early = [x for x in al.body if isinstance(x, ast.If) and isinstance(x.body[-1], ast.Return) and 'isinstance' in node_text(x.test)]
    if early:
        rep.violated('alias search root test', early[0], 'the alias search returns early depending on the root node type (`{}`): aliases on boolean/ternary expressions are lost'.format(node_text(early[0].test, 80)))
    okl = "'alias_column_as_pseudo_func'" in node_text(al, 5000)
    ts = p.func('rbql_engine', 'translate_select_expression')
    okl = okl and 'alias_column_as_pseudo_func(\\\\2)' in node_text(ts, 5000)
    rep.decide(okl, 'alias marker', al, 'the AS rewrite and the AST search use the same pseudo-function name', 'the alias pseudo-function name differs between the rewrite and the AST search')


def _star_model(cx, port, p, mod, f1, f2):
    """replace_star_vars and its header-side twin evaluated on 14 select lists (stars first, last, in the middle, adjacent, with blanks,
    qualified, and items that merely contain `*`): '' / problem / None (outside the abstract interpreter)"""
    from .. import absexec as AX
    tmpl = '] + {} + [' if port == 'py' else ']).concat({}).concat(['
    target = {'*': 'star_fields', 'a.*': 'record_a', 'b.*': 'record_b'}
    marker = {'*': '__RBQL_INTERNAL_STAR', 'a.*': 'a.__RBQL_INTERNAL_STAR', 'b.*': 'b.__RBQL_INTERNAL_STAR'}
    cases = ['*', 'a1', '*,a1', 'a1,*', 'a1, * ,a2', '*,*', 'a.*,b.*', 'a1,a2', 'a1*2,*', ' *', 'b.* , a1', 'a1, a.*, b2, *', 'len(a1), *', 'a1 * 2, b.*']
    try:
        for text in cases:
            items = text.split(',')
            want1, prev_star = '', True
            for it_ in items:
                if it_.strip() in target:
                    want1 += tmpl.format(target[it_.strip()])
                    prev_star = True
                else:
                    want1 += ('' if prev_star else ',') + it_
                    prev_star = False
            want2 = ','.join(marker.get(it_.strip(), it_) for it_ in items)
            for fd, want, side in ((f1, want1, 'record'), (f2, want2, 'header')):
                runs, cut = AX.Explorer(p, mod, max_choices=1).explore(fd, [text])
                if cut or len(runs) != 1 or runs[0].outcome[0] != 'return' or not isinstance(runs[0].outcome[1], str):
                    raise Undecided('{} does not return a text for {!r}'.format(fd.name, text), fd)
                got = runs[0].outcome[1]
                if got != want:
                    return 'for the select list `{}` the {}-side rewrite gives `{}` instead of `{}`: record fields and header names no longer line up'.format(text, side, got, want)
    except (Undecided, AX.Cut, AX._NeedChoice, AX.Raised, KeyError, IndexError, TypeError, AttributeError, ValueError) as e_:
        import os
        if os.environ.get('RBQL_VERIF_DEBUG'):
            print('star model gave up:', type(e_).__name__, str(e_)[:200])
        return None
    return ''


def rule_hd_startwin(cx, rep, port):
    """the two star-rewriting regexes agree on the star token and have the same replacement keys; the record-side skips the
    look-ahead comma, the header-side does not"""
    p = cx.port(port)
    mod = cx.engine_mod(port)
    f1 = p.func(mod, 'replace_star_vars')
    f2 = p.func(mod, 'replace_star_vars_for_ast' if port == 'py' else 'replace_star_vars_for_header_parsing')
    sm = _star_model(cx, port, p, mod, f1, f2)
    if sm is not None:
        for k_ in ('star keys', 'star targets', 'star expansion form', 'star token', 'star right context', 'comma handling'):
            rep.decide(sm == '', k_, f1, 'both star rewrites evaluated on 14 select lists: the record side splices star_fields / record_a / record_b between list literals, the header side puts the star marker in the same item position', sm)
        _hd_list_wrapping(cx, rep, port, p, mod)
        return
    rep._fallback = 'the star rewrites are outside the abstract interpreter'
    def info(fd):
        from .pa import regexes_of
        pats = [pt for pt, ic, nd in regexes_of(cx, port, fd, depth=0)]
        pat = pats[-1] if pats else None
        keys = None
        vals = None
        for d in ast.walk(fd):
            if isinstance(d, ast.Dict) and d.keys and all(isinstance(k, ast.Constant) for k in d.keys):
                keys = [k.value for k in d.keys]
                vals = [v.value if isinstance(v, ast.Constant) else None for v in d.values]
        return pat, keys, vals
    p1, k1, v1 = info(f1)
    p2, k2, v2 = info(f2)
    if not p1 or not p2:
        raise Undecided('star regexes not found', f1)

    def star_texts(fd):
        """{star form: text that replaces it}: the dictionary entry for the form, embedded in whatever constant text the function
        concatenates around the lookup"""
        is_star_dict = lambda d: isinstance(d, ast.Dict) and d.keys and all(isinstance(k, ast.Constant) and isinstance(k.value, str) and '*' in k.value for k in d.keys)  # noqa: E731
        dicts = [d for d in ast.walk(fd) if is_star_dict(d)]
        aliases = set()
        if not dicts:
            # the table may be a module-level constant the function refers to by name
            used = {x.id for x in ast.walk(fd) if isinstance(x, ast.Name)}
            for st in p.modules[mod].body:
                if isinstance(st, ast.Assign) and len(st.targets) == 1 and isinstance(st.targets[0], ast.Name) and st.targets[0].id in used and is_star_dict(st.value):
                    dicts.append(st.value)
                    aliases.add(st.targets[0].id)
        if len(dicts) != 1:
            return None
        d = dicts[0]
        aliases |= {n.targets[0].id for n in ast.walk(fd) if isinstance(n, ast.Assign) and n.value is d and isinstance(n.targets[0], ast.Name)}
        lookups = [x for x in ast.walk(fd) if isinstance(x, ast.Subscript) and (x.value is d or (isinstance(x.value, ast.Name) and x.value.id in aliases))]
        if len(lookups) != 1:
            return None
        top = lookups[0]
        while (isinstance(getattr(top, 'parent', None), ast.BinOp) and isinstance(top.parent.op, ast.Add)) or isinstance(getattr(top, 'parent', None), (ast.FormattedValue, ast.JoinedStr)):
            top = top.parent
        out = {}
        for k, v in zip(d.keys, d.values):
            if not isinstance(v, ast.Constant):
                return None

            def ev(e):
                if e is lookups[0]:
                    return v.value
                if isinstance(e, ast.Constant) and isinstance(e.value, str):
                    return e.value
                if isinstance(e, ast.BinOp) and isinstance(e.op, ast.Add):
                    l_, r_ = ev(e.left), ev(e.right)
                    return None if l_ is None or r_ is None else l_ + r_
                if isinstance(e, ast.FormattedValue) and e.format_spec is None and e.conversion == -1:
                    return ev(e.value)
                if isinstance(e, ast.JoinedStr):
                    parts = [ev(x) for x in e.values]
                    return None if any(x is None for x in parts) else ''.join(parts)
                return None
            t_ = ev(top)
            if t_ is None:
                return None
            out[k.value] = t_
        return out, top
    st1, st2 = star_texts(f1), star_texts(f2)
    if st1 is None or st2 is None:
        rep.undecided('star expansion form', f1, 'replacement text of the star forms not recognised')
    else:
        t1, node1 = st1
        t2, node2 = st2
        rep.decide(sorted(t1) == sorted(t2) == ['*', 'a.*', 'b.*'], 'star keys', f1, 'both rewrites know *, a.*, b.*', 'the star rewrites know different star forms: {} vs {}'.format(sorted(t1), sorted(t2)))
        tmpl = '] + {} + [' if port == 'py' else ']).concat({}).concat(['
        want1 = {'*': tmpl.format('star_fields'), 'a.*': tmpl.format('record_a'), 'b.*': tmpl.format('record_b')}
        got1 = {k: v.strip() for k, v in t1.items()}
        targets_ok = all(('star_fields', 'record_a', 'record_b')[i] in got1.get(k, '') for i, k in enumerate(('*', 'a.*', 'b.*')))
        rep.decide(targets_ok, 'star targets', node1, '* -> star_fields, a.* -> record_a, b.* -> record_b', 'star forms expand to {} (must be star_fields, record_a, record_b)'.format(got1))
        rep.decide({k: v.replace(' ', '') for k, v in got1.items()} == {k: v.replace(' ', '') for k, v in want1.items()}, 'star expansion form', node1, 'a star item closes the list literal, concatenates the record and reopens a literal: the result is a fresh list', 'star items are no longer spliced by concatenation into a fresh list (`{}`)'.format(got1.get('*')))
    core = '(\\*|a\\.\\*|b\\.\\*)'
    rep.decide(core in p1 and core in p2, 'star token', f1, 'same star token in both patterns', 'the star token differs between the record-side and header-side patterns')
    rep.decide(p1.endswith(' *(?=$|,)') and p2.endswith(' *(?=$|,)'), 'star right context', f1, 'a star item ends at a comma or the end', 'star right context changed')

    def end_positions(fd):
        """assignments of a position derived from the end of a match: (node, skips one more character?)"""
        out = []
        for n in walk_no_nested(fd):
            if isinstance(n, ast.Assign) and isinstance(n.targets[0], ast.Name):
                t = node_text(n.value, 200).replace(' ', '')
                if '.end()' in t or ('.index+' in t and 'len(' in t):
                    out.append((n, t.endswith('+1')))
        return out
    e1, e2 = end_positions(f1), end_positions(f2)
    ok1 = any(plus for _, plus in e1)
    ok2 = bool(e2) and not any(plus for _, plus in e2)

    def plain_position(n):
        # `pos = m.end()` / `pos = m.end() + 1` (JS: m.index + m[0].length [+ 1]) and nothing else
        t = node_text(n.value, 200).replace(' ', '')
        import re as _re
        return bool(_re.fullmatch(r'\w+\.end\(\)(\+1)?|\w+\.index\+len\(\w+\[0\]\)(\+1)?', t))
    if not (ok1 and ok2) and not (e1 and e2 and all(plain_position(n) for n, _ in e1 + e2)):
        rep.undecided('comma handling', f1, 'how the two star rewrites step over the comma after a star item was not recognised')
    else:
        rep.decide(ok1 and ok2, 'comma handling', e1[0][0] if e1 else f1, 'record side consumes the comma after a star (the concatenation replaces it); header side keeps it', 'comma handling after a star item changed: the record-side and header-side item counts would differ')
    rep._fallback = None
    _hd_list_wrapping(cx, rep, port, p, mod)


def _hd_list_wrapping(cx, rep, port, p, mod):
    # wrapping: '[{}]' / '[].concat([...])' - decided by evaluating translate_select_expression on five select lists
    from .. import absexec as AX
    ts = p.func(mod, 'translate_select_expression')
    py = port == 'py'
    cases = [('a1, a2 as total, *', ('[a1, a2] + star_fields + []', 'a1, a2 == alias_column_as_pseudo_func(total),__RBQL_INTERNAL_STAR') if py else ('[].concat([a1, a2]).concat(star_fields).concat([])', 'a1, a2 as total,__RBQL_INTERNAL_STAR')),
             ('count(*), a.*', ('[COUNT(1)] + record_a + []', 'COUNT(1),a.__RBQL_INTERNAL_STAR') if py else ('[].concat([COUNT(1)]).concat(record_a).concat([])', 'COUNT(1),a.__RBQL_INTERNAL_STAR')),
             ('a1 AS  x', ('[a1]', 'a1 == alias_column_as_pseudo_func(x)') if py else ('[].concat([a1])', 'a1 AS  x')),
             ('a1', ('[a1]', 'a1') if py else ('[].concat([a1])', 'a1')), ('', 'error'), ('   ', 'error')]
    problem, gave_up = None, None
    try:
        for text, want in cases:
            def on_call(ex, node, fname, recv, args):
                if isinstance(node.func, ast.Name) and node.func.id.endswith('Error'):
                    return AX.Abs('Exc', cls=node.func.id)
                return AX.NOT_HANDLED
            runs, cut = AX.Explorer(p, mod, on_call=on_call, max_choices=1).explore(ts, [text])
            if cut or len(runs) != 1:
                raise Undecided('translate_select_expression does not complete for {!r}'.format(text), ts)
            kind, val, _n = runs[0].outcome
            got = ('error' if isinstance(val, AX.Abs) and val.props.get('cls') == 'RbqlParsingError' else 'another error') if kind == 'raise' else (tuple(val) if isinstance(val, (list, tuple)) and len(val) == 2 and all(isinstance(x, str) for x in val) else None)
            if got is None:
                raise Undecided('translate_select_expression result {!r}'.format(val), ts)
            if got != want and problem is None:
                problem = 'the select list `{}` is translated to {!r} instead of {!r} (the record expression must be a fresh list spliced with the star records; the header text keeps one item per output column)'.format(text, got, want)
    except (Undecided, AX.Cut, AX._NeedChoice, KeyError, IndexError, TypeError, AttributeError, ValueError) as e_:
        gave_up = str(e_)[:160]
        import os
        if os.environ.get('RBQL_VERIF_DEBUG'):
            print('translate_select_expression model gave up:', type(e_).__name__, gave_up)
    if gave_up is None:
        rep.decide(problem is None, 'list wrapping', ts, 'the select list is evaluated as a fresh list literal; aliases and COUNT(*) are rewritten; an empty list is the parsing error (translate_select_expression evaluated on six select lists)', problem or '')
        return
    rets = [r for r in walk_no_nested(ts) if isinstance(r, ast.Return)]
    t = node_text(rets[-1].value, 300) if rets else ''
    okw = ("'[{}]'.format(translated)" in t) if port == 'py' else ("f'[].concat([{translated}])'" in t)
    if okw:
        rep.holds('list wrapping', rets[-1], 'the select list is evaluated as a fresh list literal')
    else:
        rep.undecided('list wrapping', rets[-1] if rets else ts, 'translate_select_expression is outside the abstract interpreter ({}) and its return is not the known wrapping'.format(gave_up))


def _except_model(cx, rep, port, p, mod, fd):
    """EXCEPT decided end to end on abstract inputs: translate_except_expression is run on select lists over a table of 12 columns (a
    column named twice, columns 3 and 11 - whose order differs numerically and as text -, a list written in descending order); the
    index list it puts into the generated call is then handed to select_except together with a record of 12 field tokens (and one of 2:
    shorter than the indices).  Both the header and the record must be the input without exactly the excluded columns, in input order.
    True when every scenario could be evaluated."""
    import re as _re
    from .. import absexec as AX
    se = p.func(mod, 'select_except', required=False)
    if se is None or len(fd.args.args) < 4:
        return False
    header = [AX.Abs('Name', id='h%d' % (i + 1)) for i in range(12)]
    scen = [('a3,a11', {2, 10}), ('a2, a2', {1}), ('a12,a1', {0, 11}), ('a5,a.h5,a7', {4, 6}), ('a1', {0}), ('a10,a9,a11,a2', {1, 8, 9, 10})]
    bad = {}
    try:
        for text, want in scen:
            vmap = {}
            for i in range(12):
                vmap['a%d' % (i + 1)] = AX.Abs('VarInfo', index=i)
                vmap['a.h%d' % (i + 1)] = vmap['a%d' % (i + 1)]

            def on_attr(ex, node, obj, attr):
                if isinstance(obj, AX.Abs) and obj.kind == 'VarInfo' and attr == 'index':
                    return ('nomemo', obj.props['index'])
                return AX.NOT_HANDLED

            def on_call(ex, node, fname, recv, args, vmap=vmap):
                short = node.func.attr if isinstance(node.func, ast.Attribute) else fname.split('.')[-1]
                if short.endswith('Error'):
                    return AX.Abs(short)
                if short == 'combine_string_literals' and args:
                    return args[0]
                if short in ('str_strip',) and len(args) == 1 and isinstance(args[0], str):
                    return args[0].strip(' ')
                if recv is vmap and short == 'hasOwnProperty' and len(args) == 1:
                    return args[0] in vmap
                return AX.NOT_HANDLED
            ex = AX.Explorer(p, mod, on_call=on_call, on_attr=on_attr, max_choices=1)
            runs, cut = ex.explore(fd, [text, vmap, [], list(header)])
            if len(runs) != 1:
                return False
            kind, val, node = runs[0].outcome
            if kind != 'return' or not isinstance(val, (list, tuple)) or len(val) != 2 or not isinstance(val[1], str):
                if kind == 'raise':
                    bad.setdefault('except list', 'EXCEPT {}: raises {}'.format(text, getattr(val, 'kind', val)))
                    continue
                return False
            out_header, code = val
            m_ = _re.match(r'^select_except\(record_a, \[([0-9, ]*)\]\)$', code)
            if m_ is None:
                bad.setdefault('except call', 'EXCEPT {}: the generated projection is `{}`'.format(text, code[:60]))
                continue
            idxs = [int(x) for x in m_.group(1).replace(' ', '').split(',') if x != '']
            want_hdr = [h for i, h in enumerate(header) if i not in want]
            if not (isinstance(out_header, list) and len(out_header) == len(want_hdr) and all(a is b for a, b in zip(out_header, want_hdr))):
                bad.setdefault('except header', 'EXCEPT {}: the output header keeps columns {} instead of {}'.format(text, [x.props['id'] for x in out_header] if isinstance(out_header, list) else out_header, [x.props['id'] for x in want_hdr]))
            for width in (12, 2):
                rec = [AX.Abs('Fld', id='f%d' % (i + 1)) for i in range(width)]
                ex2 = AX.Explorer(p, mod, max_choices=1)
                runs2, _ = ex2.explore(se, [rec, list(idxs)])
                if len(runs2) != 1 or runs2[0].outcome[0] != 'return' or not isinstance(runs2[0].outcome[1], list):
                    if len(runs2) == 1 and runs2[0].outcome[0] == 'raise':
                        bad.setdefault('except records', 'EXCEPT {} on a record of {} fields raises {}'.format(text, width, getattr(runs2[0].outcome[1], 'kind', '?')))
                        continue
                    return False
                got = runs2[0].outcome[1]
                want_rec = [f for i, f in enumerate(rec) if i not in want]
                if got is rec:
                    bad.setdefault('except copy', 'select_except returns the input record itself')
                if not (len(got) == len(want_rec) and all(a is b for a, b in zip(got, want_rec))):
                    bad.setdefault('except records', 'EXCEPT {} (generated index list {}) on a record of {} fields keeps fields {} instead of {}: header and records no longer line up'.format(text, idxs, width, [x.props['id'] for x in got if isinstance(x, AX.Abs)], [x.props['id'] for x in want_rec]))
    except (Undecided, AX.Cut, AX._NeedChoice, KeyError, IndexError, TypeError, ValueError) as e_:
        import os
        if os.environ.get('RBQL_VERIF_DEBUG'):
            print('HD-EXCEPT model gave up:', type(e_).__name__, e_)
        return False
    good = {'except list': 'every listed name is resolved', 'except call': 'the generated call is select_except(record_a, [indices])', 'except header': 'the header is the input header without the excluded columns',
            'except records': 'records lose exactly the excluded columns (duplicates, two-digit indices, descending lists, short records included)', 'except copy': 'select_except returns a new list'}
    for k in ('except list', 'except call', 'except header', 'except records', 'except copy'):
        rep.decide(k not in bad, k, fd, good[k] + ' ({} abstract EXCEPT lists)'.format(len(scen)), bad.get(k, ''))
    return True


def rule_hd_except(cx, rep, port):
    p = cx.port(port)
    mod = cx.engine_mod(port)
    fd = p.func(mod, 'translate_except_expression')
    if _except_model(cx, rep, port, p, mod, fd):
        return
    rep._fallback = 'the EXCEPT translation is outside the abstract interpreter'
    from .pa import marker_template
    hdr_param = fd.args.args[3].arg
    map_param = fd.args.args[1].arg
    # the index list: receiver of the append of a variable-map entry's index
    idx = [c for c in walk_no_nested(fd) if isinstance(c, ast.Call) and isinstance(c.func, ast.Attribute) and c.func.attr in ('append', 'push') and isinstance(c.func.value, ast.Name) and c.args and isinstance(c.args[0], ast.Attribute) and c.args[0].attr == 'index']
    mapped = None
    if len(idx) != 1:
        # the list may also be produced by mapping the names to `<map entry>.index` (comprehension, map() with a closure)
        for d in walk_no_nested(fd):
            if not (isinstance(d, ast.Assign) and isinstance(d.targets[0], ast.Name)):
                continue
            v = d.value
            elts = []
            # the mapping may sit inside ordering / copying wrappers: sorted(<m>), <m>.sort(cmp), list(<m>), Array.from(<m>)
            peeled = []
            while True:
                if isinstance(v, ast.Call) and isinstance(v.func, ast.Attribute) and v.func.attr in ('sort', 'slice', 'toSorted') and isinstance(v.func.value, (ast.Call, ast.ListComp)):
                    peeled.append(v)
                    v = v.func.value
                elif isinstance(v, ast.Call) and dotted(v.func) in ('sorted', 'list', 'Array.from') and v.args and isinstance(v.args[0], (ast.Call, ast.ListComp)):
                    peeled.append(v)
                    v = v.args[0]
                else:
                    break
            if isinstance(v, ast.ListComp):
                elts = [v.elt]
            elif isinstance(v, ast.Call) and isinstance(v.func, ast.Attribute) and v.func.attr == 'map' and len(v.args) == 1:
                fn = getattr(v.args[0], 'js_function_ref', None)
                if fn is None and isinstance(v.args[0], ast.Name):
                    fn = next((x for x in ast.walk(fd) if isinstance(x, ast.FunctionDef) and x.name == v.args[0].id), None)
                if isinstance(v.args[0], ast.Lambda):
                    elts = [v.args[0].body]
                elif fn is not None:
                    elts = [r.value for r in ast.walk(fn) if isinstance(r, ast.Return) and r.value is not None]
            if elts and all(isinstance(e_, ast.Attribute) and e_.attr == 'index' for e_ in elts):
                mapped = (d, elts, peeled)
        if mapped is None:
            rep.undecided('index source', fd, 'collection of the EXCEPT indices not recognised')
            return
    L = idx[0].func.value.id if mapped is None else mapped[0].targets[0].id

    def flows_from(e, name, seen=None):
        """does the value of e derive (through definitions of the names it mentions) from the list `name`?"""
        seen = seen or set()
        for x in ast.walk(e):
            if isinstance(x, ast.Name) and isinstance(x.ctx, ast.Load):
                if x.id == name:
                    return True
                if x.id in seen:
                    continue
                seen.add(x.id)
                for d in walk_no_nested(fd):
                    if isinstance(d, ast.Assign) and any(is_name(t_, x.id) for t_ in d.targets) and flows_from(d.value, name, seen):
                        return True
        return False
    src = idx[0].args[0].value if mapped is None else mapped[1][0].value
    src_ok = (isinstance(src, ast.Name) and any(isinstance(d, ast.Assign) and is_name(d.targets[0], src.id) and map_param in names_in(d.value) for d in walk_no_nested(fd))) or map_param in names_in(src)
    rep.decide(src_ok, 'index source', idx[0] if mapped is None else mapped[0], 'indices come from the variable map', 'EXCEPT indices do not come from the variable map entries')
    srt = [c for c in walk_no_nested(fd) if isinstance(c, ast.Call) and ((dotted(c.func) == 'sorted' and c.args and flows_from(c.args[0], L)) or (isinstance(c.func, ast.Attribute) and c.func.attr == 'sort' and flows_from(c.func.value, L)))]
    if mapped is not None:
        srt += [c for c in mapped[2] if (dotted(c.func) == 'sorted') or (isinstance(c.func, ast.Attribute) and c.func.attr in ('sort', 'toSorted'))]
    rep.decide(len(srt) >= 1, 'index order', srt[0] if srt else fd, 'skip indices are sorted', 'skip indices are not sorted')
    proj = [c for c in walk_no_nested(fd) if isinstance(c, ast.Call) and dotted(c.func) == 'select_except' and c.args and is_name(c.args[0], hdr_param)]
    rets = [r for r in walk_no_nested(fd) if isinstance(r, ast.Return) and isinstance(r.value, (ast.Tuple, ast.List)) and len(r.value.elts) == 2]
    if len(rets) != 1:
        rep.undecided('header projection', fd, 'returned (header, expression) pair not recognised')
        return
    h_el, e_el = rets[0].value.elts
    if len(proj) == 1 and len(proj[0].args) == 2:
        same = is_name(proj[0].args[1], L)
        reaches = any(x is proj[0] for x in ast.walk(h_el)) or any(isinstance(d, ast.Assign) and any(x is proj[0] for x in ast.walk(d.value)) and any(t_.id in names_in(h_el) for t_ in d.targets if isinstance(t_, ast.Name)) for d in walk_no_nested(fd))
        if not same:
            rep.violated('header projection', proj[0], 'the EXCEPT header is projected with `{}`, not with the index list used for the records'.format(node_text(proj[0].args[1])))
        elif not reaches:
            rep.violated('header projection', rets[0], 'the projected header is not what translate_except_expression returns')
        else:
            rep.holds('header projection', proj[0], 'header = select_except(input_header, the same indices); None without header')
    elif not proj and hdr_param in names_in(h_el):
        rep.violated('header projection', rets[0], 'the EXCEPT header handed back is the input header itself: the excluded columns keep their names')
    else:
        rep.undecided('header projection', fd, 'projection of the header not recognised')
    tmpl = None
    for x in ast.walk(e_el):
        m = marker_template(x) if isinstance(x, (ast.Call, ast.JoinedStr, ast.BinOp)) else None
        if m is not None:
            tmpl = m
            break
    if tmpl is None:
        rep.undecided('record projection', rets[0], 'record expression template not recognised')
    else:
        pre, suf, hole = tmpl
        okr = pre.replace(' ', '') == 'select_except(record_a,[' and suf.replace(' ', '') == '])' and flows_from(hole, L)
        rep.decide(okr, 'record projection', rets[0], 'records = select_except(record_a, [the same indices])', 'the EXCEPT record expression is not select_except(record_a, [<the collected indices>])')
    unk = [r for r in ast.walk(fd) if isinstance(r, ast.Raise)]
    rep.decide(len(unk) == 1 and 'RbqlParsingError' in node_text(unk[0]), 'unknown field', unk[0] if unk else fd, 'unknown field -> parsing error', 'an unknown EXCEPT field is not a parsing error')
    se = p.func(mod, 'select_except')
    _select_except_semantics(rep, se)
    if port == 'js':
        # Array.sort() without a comparator orders numbers by their decimal text (10 < 9)
        bare = [c for c in srt if isinstance(c.func, ast.Attribute) and c.func.attr == 'sort' and not c.args]
        bare += [c for c in walk_no_nested(fd) if isinstance(c, ast.Call) and isinstance(c.func, ast.Attribute) and c.func.attr == 'sort' and not c.args and flows_from(c.func.value, L) and c not in bare]
        if bare:
            rep.violated('index order', bare[0], 'the EXCEPT indices are sorted with Array.sort() without a comparator: numbers are ordered by their decimal text (10 before 9)')


def _select_except_semantics(rep, se):
    """select_except(src, E) keeps, in order and in a new list, exactly the elements whose position is not in E"""
    src, exc = se.args.args[0].arg, se.args.args[1].arg
    keep = None   # (test, kept element, index name, value name, node)
    for n in walk_no_nested(se):
        if isinstance(n, ast.For):
            iv = vv = None
            if isinstance(n.iter, ast.Call) and dotted(n.iter.func) == 'enumerate' and n.iter.args and is_name(n.iter.args[0], src) and isinstance(n.target, ast.Tuple):
                iv, vv = n.target.elts[0].id, n.target.elts[1].id
            elif isinstance(n.iter, ast.Call) and dotted(n.iter.func) == 'range' and isinstance(n.iter.args[-1], ast.Call) and dotted(n.iter.args[-1].func) == 'len' and is_name(n.iter.args[-1].args[0], src) and isinstance(n.target, ast.Name):
                iv = n.target.id
            if iv is None:
                continue
            if len(n.body) == 1 and isinstance(n.body[0], ast.If) and not n.body[0].orelse and len(n.body[0].body) == 1:
                st = n.body[0].body[0]
                if isinstance(st, ast.Expr) and isinstance(st.value, ast.Call) and isinstance(st.value.func, ast.Attribute) and st.value.func.attr in ('append', 'push') and st.value.args:
                    keep = (n.body[0].test, st.value.args[0], iv, vv, n)
        if isinstance(n, ast.ListComp) and len(n.generators) == 1 and len(n.generators[0].ifs) == 1:
            g = n.generators[0]
            if isinstance(g.iter, ast.Call) and dotted(g.iter.func) == 'enumerate' and g.iter.args and is_name(g.iter.args[0], src) and isinstance(g.target, ast.Tuple):
                keep = (g.ifs[0], n.elt, g.target.elts[0].id, g.target.elts[1].id, n)
    if keep is None:
        rep.undecided('select_except', se, 'shape of select_except not recognised')
        return
    test, kept, iv, vv, node = keep
    t = node_text(test, 120).replace(' ', '')
    good_t = t in ('{}notin{}'.format(iv, exc), '{}.indexOf({})==-1'.format(exc, iv), 'not{}.includes({})'.format(exc, iv), '{}.indexOf({})<0'.format(exc, iv), 'not({}in{})'.format(iv, exc))
    bad_t = t in ('{}in{}'.format(iv, exc), '{}.indexOf({})!=-1'.format(exc, iv), '{}.includes({})'.format(exc, iv), '{}.indexOf({})>=0'.format(exc, iv))
    k = node_text(kept, 60).replace(' ', '')
    good_k = (vv is not None and k == vv) or k == '{}[{}]'.format(src, iv)
    fresh = any(isinstance(n, ast.Assign) and isinstance(n.targets[0], ast.Name) and ((isinstance(n.value, ast.Call) and dotted(n.value.func) == 'list' and not n.value.args) or (isinstance(n.value, ast.List) and not n.value.elts)) for n in walk_no_nested(se)) or isinstance(node, ast.ListComp)
    if bad_t:
        rep.violated('select_except', node, 'select_except keeps the fields whose position *is* listed (`{}`)'.format(node_text(test, 60)))
    elif good_t and good_k and fresh:
        rep.holds('select_except', se, 'keeps, in order, the fields whose index is not excluded, in a new list')
    elif good_t and not good_k and isinstance(kept, ast.Subscript):
        rep.violated('select_except', node, 'select_except keeps `{}` instead of the field at the tested position'.format(node_text(kept, 60)))
    else:
        rep.undecided('select_except', node, 'membership test `{}` / kept element `{}` not recognised'.format(node_text(test, 60), node_text(kept, 40)))


def rule_hd_update(cx, rep, port):
    """UPDATE header = input header; writers that enforce width"""
    from .conf import table
    w, rows, n = table(cx, port)
    bad = None
    good = 0
    for r in rows:
        if r.error is None and r.atoms['UPDATE'] and not r.atoms['SELECT']:
            hdr = [e for e in r.events if e.kind == 'sink' and e.what == 'set_header']
            if len(hdr) == 1 and hdr[0].extra['args'] == ['input_header']:
                good += 1
            else:
                bad = (r, hdr[0].node if hdr else w.fd)
    if bad:
        rep.violated('update header', bad[1], 'UPDATE does not hand the unchanged input header to the writer (configuration {})'.format(bad[0].name()))
    else:
        rep.holds('update header', w.fd, '{} UPDATE paths hand input_header to set_header'.format(good))
    rep.require_count('update paths', good + (1 if bad else 0), 4, w.fd)
    if port == 'py':
        p = cx.py
        wr = p.func('rbql_csv', 'CSVWriter.write')
        from .. import snippet
        from .. import cfg as cfgmod
        fields = wr.args.args[1].arg
        guards = [i for i in walk_no_nested(wr) if isinstance(i, ast.If) and snippet.alpha_equal(snippet.inline_single_defs(i.test, wr), 'self.header_len is not None and len({0}) != self.header_len'.format(fields)) and any(isinstance(x, ast.Raise) for x in i.body)]
        ok = False
        first = wr.body[0]
        if guards:
            first = guards[0]
            g = cfgmod.CFG(wr)
            dom = g.dominators()
            tn = [n_ for n_ in g.nodes if n_.ast is first.test]
            outs = [n_ for n_ in g.nodes if cfgmod.node_contains(n_, lambda x: isinstance(x, ast.Call) and call_name(x) == 'self.stream.write')]
            ok = bool(tn) and bool(outs) and all(g.dominates(tn[0], o, dom) for o in outs)
        rep.decide(ok, 'CSVWriter width check', first, 'a record whose width differs from the header is an IO error (tested before anything is written)', 'CSVWriter.write no longer rejects records whose width differs from the header before writing them')
        sh = p.func('rbql_csv', 'CSVWriter.set_header')
        okh = 'self.header_len = len(header)' in node_text(sh, 600)
        rep.decide(okh, 'CSVWriter header width', sh, 'header width recorded', 'header width is not recorded')


# ------------------------------------------------------------------------------------------------ variables
def _varmap_model(cx, port):
    """the four variable parsers evaluated on query texts and headers: numbered variables next to look-alikes (xa3, a4_, _a5, a06), subscripts,
    attribute names (known / unknown), quoted names with blanks, quotes, a tab and a backslash.  {parser: problem or None} / None"""
    memo = '_varmap_model_' + port
    if hasattr(cx, memo):
        return getattr(cx, memo)
    import re as _re
    from .. import absexec as AX
    p = cx.port(port)
    mod = cx.engine_mod(port)
    res = {}

    def esc(name, q):
        name = name.replace('\\', '\\\\').replace('\n', '\\n').replace('\r', '\\r').replace('\t', '\\t')
        return name.replace(q, '\\' + q)

    def oracle(fname, query, prefix, names):
        out = {}
        if fname == 'parse_basic_variables':
            for m_ in _re.finditer('(?:^|[^_a-zA-Z0-9])' + prefix + '([1-9][0-9]*)(?:$|(?=[^_a-zA-Z0-9]))', query):
                out[prefix + m_.group(1)] = (True, int(m_.group(1)) - 1)
        elif fname == 'parse_array_variables':
            for m_ in _re.finditer('(?:^|[^_a-zA-Z0-9])' + prefix + r'\[([1-9][0-9]*)\]', query):
                out['{}[{}]'.format(prefix, m_.group(1))] = (True, int(m_.group(1)) - 1)
        elif fname == 'parse_attribute_variables':
            for m_ in _re.finditer('(?:^|[^_a-zA-Z0-9])' + prefix + r'\.([_a-zA-Z][_a-zA-Z0-9]*)', query):
                if m_.group(1) not in names:
                    return 'error'
                out['{}.{}'.format(prefix, m_.group(1))] = (True, names.index(m_.group(1)))
        else:
            if _re.search('(?:^|[^_a-zA-Z0-9])' + prefix + r'\[', query) is None:
                return out
            for i_, nm_ in enumerate(names):
                if all(seg in query for seg in _re.findall('[-a-zA-Z0-9_:;+=!.,()%^#@&* ]+', nm_)):
                    for q_ in (['"', "'"] + (['`'] if port == 'js' else [])):
                        out['{}[{}{}{}]'.format(prefix, q_, esc(nm_, q_), q_)] = (q_ == '"', i_)
        return out
    cases = [('parse_basic_variables', 'select a1, a12,xa3, a4_, _a5, a06, a7+a1', 'a', None), ('parse_basic_variables', 'b2==a3', 'b', None),
             ('parse_array_variables', 'a[1] , a[20],xa[3], a[0], b[4]', 'a', None),
             ('parse_attribute_variables', 'select a.name, a.x1 , b.zz, xa.q', 'a', ['name', 'x1', 'zz']), ('parse_attribute_variables', 'select a.name, a.none', 'a', ['name']),
             ('parse_dictionary_variables', 'select a["x y"], a[\'q\']', 'a', ['x y', 'q', 'other name', 'x']),
             ('parse_dictionary_variables', 'select a["it\'s"], a["tab\\there"], a["back\\\\slash"], a[\'say "hi"\']', 'a', ["it's", 'tab\there', 'back\\slash', 'say "hi"', 'new\nline']),
             ('parse_dictionary_variables', 'select a1, b["x"]', 'a', ['x']),
             ('parse_dictionary_variables', "select a['it\\'s'], a['km/h'], a['a|b?']", 'a', ["it's", 'km/h', 'a|b?', 'it']),
             ('parse_dictionary_variables', 'select a["caf\xe9"], a["\u0446\u0435\u043d\u0430 1"]', 'a', ['caf\xe9', '\u0446\u0435\u043d\u0430 1'])]
    try:
        for fname, query, prefix, names in cases:
            fd = p.func(mod, fname)

            def on_call(ex, node, fname_, recv, args):
                short = node.func.attr if isinstance(node.func, ast.Attribute) else fname_
                if short == 'VariableInfo':
                    kw = dict(ex.last_kwargs or {})
                    return {'initialize': kw.get('initialize', args[0] if args else None), 'index': kw.get('index', args[1] if len(args) > 1 else None)}
                if isinstance(node.func, ast.Name) and node.func.id.endswith('Error'):
                    return AX.Abs('Exc', cls=node.func.id)
                if fname_ == 'parseInt' and len(args) >= 1 and isinstance(args[0], str) and args[0].isdigit():
                    return int(args[0])
                if fname_ == 'assert':
                    return None
                return AX.NOT_HANDLED
            dst = {}
            args = [query, prefix] + ([list(names)] if names is not None else []) + (['input table header'] if fname == 'parse_attribute_variables' else []) + [dst]
            if len(fd.args.args) != len(args):
                raise Undecided('{} takes {} parameters'.format(fname, len(fd.args.args)), fd)
            runs, cut = AX.Explorer(p, mod, on_call=on_call, max_choices=1).explore(fd, args)
            if cut or len(runs) != 1:
                raise Undecided('{} does not complete'.format(fname), fd)
            want = oracle(fname, query, prefix, names or [])
            if runs[0].outcome[0] == 'raise':
                v_ = runs[0].outcome[1]
                got = 'error' if isinstance(v_, AX.Abs) and v_.props.get('cls') == 'RbqlParsingError' else 'another error'
            else:
                got = {k_: ((v_.get('initialize'), v_.get('index')) if isinstance(v_, dict) else v_) for k_, v_ in dst.items()}
            if got != want and res.get(fname) is None:
                def show(d_):
                    return d_ if isinstance(d_, str) else {k_: 'column {}{}'.format(v_[1] + 1 if isinstance(v_[1], int) else v_[1], '' if v_[0] else ' (not initialised)') for k_, v_ in sorted(d_.items())} if isinstance(d_, dict) else repr(d_)
                res[fname] = 'for the query `{}`{} {} binds {} instead of {}'.format(query, ' and the column names {}'.format(names) if names else '', fname, show(got), show(want))
            res.setdefault(fname, None)
    except (Undecided, AX.Cut, AX._NeedChoice, KeyError, IndexError, TypeError, AttributeError, ValueError) as e_:
        import os
        if os.environ.get('RBQL_VERIF_DEBUG'):
            print('variable map model gave up:', type(e_).__name__, str(e_)[:200])
        res = None
    setattr(cx, memo, res)
    return res


def _safe_access_model(cx, port, p, mod):
    """safe_get / safe_set / safe_join_get evaluated on a two-field record with the indices 0, 1, 2, 5: {function: problem or None} / None"""
    from .. import absexec as AX
    res = {}
    try:
        for fname in ('safe_get', 'safe_set', 'safe_join_get'):
            fd = p.func(mod, fname)
            res[fname] = None
            for idx, with_none in ((0, False), (1, False), (2, False), (5, False), (1, True), (0, True)):
                rec = ['x', None] if with_none else ['x', 'y']
                orig = list(rec)

                def on_call(ex, node, fname_, recv, args):
                    if isinstance(node.func, ast.Name) and node.func.id.endswith('Error'):
                        return AX.Abs('Exc', cls=node.func.id, args=tuple(args))
                    return AX.NOT_HANDLED
                args = [rec, idx] + (['NEW'] if fname == 'safe_set' else [])
                if len(fd.args.args) != len(args):
                    raise Undecided('{} takes {} parameters'.format(fname, len(fd.args.args)), fd)
                runs, cut = AX.Explorer(p, mod, on_call=on_call, max_choices=1).explore(fd, args)
                if cut or len(runs) != 1:
                    raise Undecided('{} does not complete'.format(fname), fd)
                kind, val, _n = runs[0].outcome
                inside = idx < 2
                bad = None
                if fname == 'safe_get':
                    want = orig[idx] if inside else None
                    if kind != 'return' or val != want or rec != orig:
                        bad = 'safe_get(record of 2 fields, {}) gives {!r} instead of {!r}'.format(idx, val if kind == 'return' else 'an error', want)
                elif inside:
                    want_rec = list(orig) if fname == 'safe_join_get' else [('NEW' if i_ == idx else v_) for i_, v_ in enumerate(orig)]
                    if kind != 'return' or rec != want_rec or (fname == 'safe_join_get' and val != orig[idx]):
                        bad = '{}(record {!r}, {}) does not {} field {}{}'.format(fname, orig, idx, 'return' if fname == 'safe_join_get' else 'assign', idx + 1, ' (a field that holds None exists all the same)' if with_none else '')
                else:
                    is_bad_field = kind == 'raise' and isinstance(val, AX.Abs) and val.props.get('cls') == 'InternalBadFieldError' and val.props.get('args') == (idx,)
                    if not is_bad_field or rec != orig:
                        bad = '{}(record of 2 fields, {}) does not raise InternalBadFieldError({}) leaving the record alone (it {})'.format(fname, idx, idx, 'returns {!r}, record {!r}'.format(val, rec) if kind == 'return' else 'raises {!r}'.format(val))
                if bad and res[fname] is None:
                    res[fname] = bad
    except (Undecided, AX.Cut, AX._NeedChoice, KeyError, IndexError, TypeError, AttributeError, ValueError) as e_:
        import os
        if os.environ.get('RBQL_VERIF_DEBUG'):
            print('safe access model gave up:', type(e_).__name__, str(e_)[:200])
        return None
    return res


def rule_va_index(cx, rep, port):
    """every variable parser stores index N-1; safe_get guard; b-variables None when record_b is None"""
    p = cx.port(port)
    mod = cx.engine_mod(port)
    vm = _varmap_model(cx, port)
    for fname in ('parse_basic_variables', 'parse_array_variables'):
        fd = p.func(mod, fname)
        if vm is not None:
            rep.decide(vm.get(fname) is None, fname + ' index', fd, 'variable N -> zero-based index N-1, look-alikes ignored (parser evaluated on query texts)', vm.get(fname) or '')
            rep.decide(vm.get(fname) is None, fname + ' key', fd, 'keyed by the variable spelling (prefix + N)', vm.get(fname) or '')
            continue
        stores = [n for n in walk_no_nested(fd) if isinstance(n, ast.Assign) and isinstance(n.targets[0], ast.Subscript) and is_name(n.targets[0].value, 'dst_variables_map')]
        ok = len(stores) == 1 and 'field_num - 1' in node_text(stores[0].value)
        rep.decide(ok, fname + ' index', stores[0] if stores else fd, 'variable N -> zero-based index N-1', '{} does not map variable N to index N-1 (`{}`)'.format(fname, node_text(stores[0].value) if stores else ''))
        if stores:
            k = node_text(stores[0].targets[0].slice)
            okk = ('prefix' in k and 'field_num' in k)
            rep.decide(okk, fname + ' key', stores[0], 'keyed by the variable spelling (prefix + N)', 'the variable map key is not built from prefix and N')
    sam = _safe_access_model(cx, port, p, mod)
    if sam is not None:
        for fn_, good_ in (('safe_get', 'record[idx] if idx < len(record) else None'), ('safe_set', 'assignment within the record, otherwise the bad-field error with the index'), ('safe_join_get', 'join key field or the bad-field error')):
            rep.decide(sam[fn_] is None, fn_, p.func(mod, fn_), good_ + ' (evaluated for indices inside and beyond a two-field record)', sam[fn_] or '')
        _va_index_tail(cx, rep, port, p, mod)
        return
    sg = p.func(mod, 'safe_get')
    okg = alpha_equal(sg, "def safe_get(record, idx):\n    return record[idx] if idx < len(record) else None")
    rep.decide(okg, 'safe_get', sg, 'record[idx] if idx < len(record) else None', 'safe_get is no longer equivalent to "record[idx] if idx < len(record) else None" (`{}`)'.format(node_text(sg.body[-1], 120)))
    ss = p.func(mod, 'safe_set')
    oks = alpha_equal(ss, "def safe_set(record, idx, value):\n    try:\n        record[idx] = value\n    except IndexError:\n        raise InternalBadFieldError(idx)") or alpha_equal(ss, "def safe_set(record, idx, value):\n    if idx < len(record):\n        record[idx] = value\n    else:\n        raise InternalBadFieldError(idx)") or alpha_equal(ss, "def safe_set(record, idx, value):\n    if not idx < len(record):\n        raise InternalBadFieldError(idx)\n    record[idx] = value")
    rep.decide(oks, 'safe_set', ss, 'assignment within the record, otherwise the bad-field error with the index', 'safe_set no longer assigns within the record and raises InternalBadFieldError(idx) for every index beyond it (`{}`)'.format(node_text(ss, 200)))
    sj = p.func(mod, 'safe_join_get')
    okj = alpha_equal(sj, "def safe_join_get(record, idx):\n    try:\n        return record[idx]\n    except IndexError:\n        raise InternalBadFieldError(idx)") or alpha_equal(sj, "def safe_join_get(record, idx):\n    if idx < len(record):\n        return record[idx]\n    raise InternalBadFieldError(idx)")
    rep.decide(okj, 'safe_join_get', sj, 'join key field or the bad-field error', 'safe_join_get no longer returns the field or raises InternalBadFieldError(idx) beyond the record')
    _va_index_tail(cx, rep, port, p, mod)


def _va_index_tail(cx, rep, port, p, mod):
    gi = p.func(mod, 'generate_init_statements')
    gm = _init_statements_model(cx, port, p, mod, gi)
    if gm is not None:
        for k_, good_ in (('a-variable init', 'aN = safe_get(record_a, index)'), ('b-variable init', 'bN = safe_get(record_b, index), None when record_b is None'),
                          ('initialize flag', 'only variables flagged initialize are bound'), ('NR aliases', 'a.NR/aNR = NR, b.NR = bNR, each only when the query mentions it')):
            rep.decide(gm[k_] is None, k_, gi, good_ + ' ({} scenarios evaluated)'.format(gm['__n__']), gm[k_] or '')
        return
    with rep.as_fallback('generate_init_statements is outside the abstract interpreter'):
        _va_index_init_shape(cx, rep, port, p, mod, gi)


def _init_statements_model(cx, port, p, mod, gi):
    """generate_init_statements evaluated on an abstract query text (every combination of "mentions a.NR / aNR / b.NR"), an A variable
    map of four variables (one not to be initialised, one attribute-style, one subscript-style name) and a B map (absent / three
    variables): the generated lines are compared with the binding table.  {obligation: problem or None}; None when outside the interpreter"""
    import re as _re
    from .. import absexec as AX
    res = {'a-variable init': None, 'b-variable init': None, 'initialize flag': None, 'NR aliases': None}
    n_args = len(gi.args.args)
    if n_args not in (3, 4):
        return None
    a_vars = [('a1', True, 0), ('a2', False, 1), ('a.name', True, 2), ('a["x y"]', True, 3)]
    b_vars = [('b1', True, 0), ('b.z', True, 5), ('b2', False, 1)]

    def norm(line):
        line = _re.sub(r'\s+', ' ', line.strip())
        return _re.sub(r' ?([=(),;?:]) ?', r'\1', line)
    n = 0
    try:
        for with_b in (False, True):
            qt = AX.Abs('Query')

            def mk(vs):
                d = {}
                for name, init, idx in vs:
                    d[name] = AX.Abs('VarInfo', initialize=init, index=idx)
                return d

            def on_attr(ex, node, obj, attr):
                if isinstance(obj, AX.Abs) and obj.kind == 'VarInfo' and attr in ('initialize', 'index'):
                    return obj.props[attr]
                return AX.NOT_HANDLED

            def on_call(ex, node, fname, recv, args):
                short = node.func.attr if isinstance(node.func, ast.Attribute) else fname
                if recv is qt and short in ('find', 'indexOf', 'includes', 'count') and len(args) == 1 and isinstance(args[0], str):
                    key = ('mentions', args[0])
                    if key not in ex.run.state:
                        ex.run.state[key] = ex.choose('query mentions ' + args[0], [False, True])
                    has = ex.run.state[key]
                    return has if short == 'includes' else ((0 if has else -1) if short != 'count' else int(has))
                return AX.NOT_HANDLED
            ex = AX.Explorer(p, mod, on_call=on_call, on_attr=on_attr, max_choices=4)
            args = [qt, mk(a_vars), mk(b_vars) if with_b else None] + (['    '] if n_args == 4 else [])
            runs, cut = ex.explore(gi, args)
            if cut or not runs:
                return None
            for r in runs:
                n += 1
                if r.outcome[0] != 'return' or not isinstance(r.outcome[1], str):
                    return None
                lines = [norm(x) for x in r.outcome[1].split('\n')]
                m = {k[1]: v for k, v in r.state.items() if isinstance(k, tuple) and len(k) == 2 and k[0] == 'mentions'}
                when = 'for a query that mentions {}'.format(', '.join(sorted(k for k, v in m.items() if v)) or 'no record-number alias')
                py = port == 'py'
                end = '' if py else ';'
                want_alias = [norm(x) for x in (['a.NR = NR' + end] if m.get('a.NR') else []) + (['aNR = NR' + end] if m.get('aNR') else []) + (['b.NR = bNR' + end] if with_b and m.get('b.NR') else [])]
                got_alias = [x for x in lines if _re.fullmatch(r'(var )?[ab]\.?NR=\w+;?', x)]
                if sorted(got_alias) != sorted(want_alias) or ('a.NR' not in m) or ('aNR' not in m) or (with_b and 'b.NR' not in m):
                    res['NR aliases'] = res['NR aliases'] or '{} the record-number aliases bound are {} instead of {}'.format(when, got_alias, want_alias)
                for tag, vs, rec in (('a', a_vars, 'record_a'), ('b', b_vars if with_b else [], 'record_b')):
                    for name, init, idx in vs:
                        if py:
                            w = '{} = safe_get({}, {})'.format(name, rec, idx) + ('' if tag == 'a' else ' if record_b is not None else None')
                        else:
                            kw_ = 'var ' if _re.fullmatch(r'[_0-9a-zA-Z]+', name) else ''
                            w = '{}{} = safe_get(record_a, {});'.format(kw_, name, idx) if tag == 'a' else '{}{} = record_b === null ? null : safe_get(record_b, {});'.format(kw_, name, idx)
                        w = norm(w)
                        binds = [x for x in lines if x.startswith(norm(name + ' =')) or x.startswith(norm('var ' + name + ' ='))]
                        if init and binds != [w]:
                            res[tag + '-variable init'] = res[tag + '-variable init'] or 'variable {} (column {}) is initialised by {} instead of `{}`'.format(name, idx + 1, binds or 'nothing', w)
                        if not init and binds:
                            res['initialize flag'] = res['initialize flag'] or 'variable {} is not used by the query (initialize = False) but is bound: `{}`'.format(name, binds[0])
                if not with_b and any('record_b' in x or x.startswith('b=') for x in lines):
                    res['b-variable init'] = res['b-variable init'] or 'B-side initialisation is generated for a query without JOIN'
    except (Undecided, KeyError, IndexError, TypeError, AttributeError, ValueError) as e_:
        import os
        if os.environ.get('RBQL_VERIF_DEBUG'):
            print('init statements model gave up:', type(e_).__name__, e_)
        return None
    res['__n__'] = n
    return res


def _va_index_init_shape(cx, rep, port, p, mod, gi):
    tmpl = [c.value if isinstance(c, ast.Constant) else const_value(c) for c in ast.walk(gi) if isinstance(c, (ast.Constant, ast.JoinedStr))]
    tm = [t for t in tmpl if isinstance(t, str)]
    txt = node_text(gi, 4000)
    if port == 'py':
        oka = "'{} = safe_get(record_a, {})'.format(var_name, var_info.index)" in txt
        okb = "'{} = safe_get(record_b, {}) if record_b is not None else None'.format(var_name, var_info.index)" in txt
    else:
        oka = '{variable_name} = safe_get(record_a, {var_info.index});' in txt
        okb = '{variable_name} = record_b === null ? null : safe_get(record_b, {var_info.index});' in txt
    rep.decide(oka, 'a-variable init', gi, 'aN = safe_get(record_a, index)', 'a-variables are no longer initialised as safe_get(record_a, index)')
    rep.decide(okb, 'b-variable init', gi, 'bN = safe_get(record_b, index), None when record_b is None', 'b-variables are no longer None when there is no join partner')
    init_only = [n for n in ast.walk(gi) if isinstance(n, ast.If) and isinstance(n.test, ast.Attribute) and n.test.attr == 'initialize']
    init_only += [i for n in ast.walk(gi) if isinstance(n, ast.comprehension) for i in n.ifs if isinstance(i, ast.Attribute) and i.attr == 'initialize']
    rep.decide(len(init_only) == 2, 'initialize flag', gi, 'only variables flagged initialize are bound', 'the initialize flag is not honoured for both tables')
    gc = p.func(mod, 'generate_common_init_code')
    t = node_text(gc, 2000)
    okn = "base_var = 'NR' if variable_prefix == 'a' else 'bNR'" in t and ("'aNR = NR'" in t or "'aNR = NR;'" in t)
    rep.decide(okn, 'NR aliases', gc, 'a.NR/aNR = NR, b.NR = bNR', 'the NR aliases (a.NR, aNR, b.NR) are no longer bound to NR / bNR')


def rule_va_enum(cx, rep, port):
    """name -> index maps come from the enumerate position of the header"""
    p = cx.port(port)
    mod = cx.engine_mod(port)
    fa = p.func(mod, 'parse_attribute_variables')
    fdv = p.func(mod, 'parse_dictionary_variables')
    fm = p.func(mod, 'map_variables_directly')
    ta = node_text(fa, 3000)
    if port == 'py':
        oka = 'column_names = {v: i for i, v in enumerate(column_names)}' in ta and 'zero_based_idx = column_names.get(column_name)' in ta and 'index=zero_based_idx' in ta
    else:
        oka = 'zero_based_idx = column_names.indexOf(column_name)' in ta and "'index': zero_based_idx" in ta
    rep.decide(oka, 'attribute variables', fa, 'a.name -> position of name in the header', 'a.name is no longer bound to the position of that name in the header')
    # every a.<name> found in the query is looked up: each path through the loop over the found names either binds the variable
    # or raises "unable to find column" - none skips a name on its spelling (a header column may be called NR, len, index ...)
    from .. import pathsem
    dst = fa.args.args[-1].arg
    loops = [n for n in walk_no_nested(fa) if isinstance(n, ast.For) and any(isinstance(x, ast.Name) and x.id == dst for b in n.body for x in ast.walk(b))]
    if len(loops) != 1:
        rep.undecided('attribute lookup total', fa, 'loop over the attribute names found in the query not recognised')
    else:
        lps = pathsem.paths_of_block(loops[0].body)
        if lps is None:
            rep.undecided('attribute lookup total', loops[0], 'loop body is not straight-line code')
        else:
            skip = None
            for q in lps:
                binds = any(isinstance(t_, ast.Subscript) and is_name(t_.value, dst) for t_, _ in q.stores)
                if q.kind == 'raise' or binds:
                    continue
                skip = q
                break
            if skip is not None:
                conds = ' and '.join(('' if pol else 'not ') + '`{}`'.format(node_text(t_, 50)) for t_, pol in skip.conds) or 'always'
                rep.violated('attribute lookup total', skip.node if skip.node is not None else loops[0], 'an a.<name> variable found in the query is neither bound nor rejected when {}: a header column of that name silently evaluates to something else'.format(conds))
            else:
                rep.holds('attribute lookup total', loops[0], 'every a.<name> of the query is bound to its column or rejected ({} path(s))'.format(len(lps)))
    # a["name"]: every entry stored for a name carries the position of that name in the header
    names_param = fdv.args.args[2].arg
    dstv = fdv.args.args[-1].arg
    pairs_in = _index_name_pairs(fdv, names_param)
    stores_d = [n for n in ast.walk(fdv) if isinstance(n, ast.Assign) and isinstance(n.targets[0], ast.Subscript) and is_name(n.targets[0].value, dstv)]
    if not pairs_in or not stores_d:
        rep.undecided('dictionary variables', fdv, 'loop over (position, name) of the header / stores into the variable map not recognised')
    else:
        idx_ok = True
        for st_ in stores_d:
            v_ = st_.value
            ie = None
            if isinstance(v_, ast.Dict):
                ie = next((vv for kk, vv in zip(v_.keys, v_.values) if isinstance(kk, ast.Constant) and kk.value == 'index'), None)
            elif isinstance(v_, ast.Call):
                ie = next((k.value for k in v_.keywords if k.arg == 'index'), None)
            if not (isinstance(ie, ast.Name) and any(ie.id == i_ for i_, _ in pairs_in)):
                idx_ok = False
        rep.decide(idx_ok, 'dictionary variables', stores_d[0], 'a["name"] -> position i of the name', 'a["name"] is no longer bound to the position of that name in the header')
    tm = node_text(fm, 2000)
    okm = ('for idx, column_name in enumerate(column_names)' in tm and 'index=idx' in tm) if port == 'py' else ('column_name = column_names[i]' in tm and "'index': i" in tm)
    rep.decide(okm, 'direct variables', fm, 'bare name -> its header position', 'direct-mode names are no longer bound to their header position')
    # regexes
    from .pa import regexes_of
    pats = {}
    for fd in (fa, fdv, fm):
        # the patterns the function applies, wherever and however they are written (holes of templates appear as X)
        pats[fd.name] = [pt for pt, ic, nd in regexes_of(cx, port, fd, depth=0)]
    a_ok = any(x in ('(?:^|[^_a-zA-Z0-9])X\\.([_a-zA-Z][_a-zA-Z0-9]*)',) for x in pats.get('parse_attribute_variables', []))
    rep.decide(a_ok, 'attribute regex', fa, 'a.<identifier> preceded by a non-identifier character', 'attribute-variable pattern changed: {}'.format(pats.get('parse_attribute_variables')))
    m_ok = any(x in ('^[_a-zA-Z][_a-zA-Z0-9]*$',) for x in pats.get('map_variables_directly', []))
    rep.decide(m_ok, 'direct-mode name check', fm, 'names must be identifiers (anchored)', 'direct-mode identifier check changed: {}'.format(pats.get('map_variables_directly')))


def _index_name_pairs(fd, seq):
    """loops of fd that run over the (position, element) pairs of the sequence `seq`: [(index variable, element variable)]
       for i in range(len(seq)): x = seq[i]     for i, x in enumerate(seq)     for [i, x] of seq.entries()"""
    out = []
    for n in ast.walk(fd):
        if not isinstance(n, ast.For):
            continue
        it, tg = n.iter, n.target
        if isinstance(tg, ast.Name) and isinstance(it, ast.Call) and dotted(it.func) == 'range' and it.args and isinstance(it.args[-1], ast.Call) and dotted(it.args[-1].func) == 'len' and is_name(it.args[-1].args[0], seq) and (len(it.args) == 1 or const_value(it.args[0]) == 0):
            for st in n.body:
                if isinstance(st, ast.Assign) and len(st.targets) == 1 and isinstance(st.targets[0], ast.Name) and isinstance(st.value, ast.Subscript) and is_name(st.value.value, seq) and is_name(st.value.slice, tg.id):
                    out.append((tg.id, st.targets[0].id))
        if isinstance(tg, (ast.Tuple, ast.List)) and len(tg.elts) == 2 and all(isinstance(x, ast.Name) for x in tg.elts) and isinstance(it, ast.Call):
            if (dotted(it.func) == 'enumerate' and len(it.args) == 1 and is_name(it.args[0], seq)) or (isinstance(it.func, ast.Attribute) and it.func.attr == 'entries' and is_name(it.func.value, seq) and not it.args):
                out.append((tg.elts[0].id, tg.elts[1].id))
    return out


def _const_table(node):
    """entries of a constant table: {k: v} / dict literal / new Map([[k, v], ...]) -> list of (key constant, value node)"""
    if isinstance(node, ast.Dict) and node.keys and all(isinstance(k, ast.Constant) for k in node.keys):
        return [(k.value, v) for k, v in zip(node.keys, node.values)]
    if isinstance(node, ast.Call) and dotted(node.func) in ('Map', 'dict', 'OrderedDict', 'collections.OrderedDict') and len(node.args) == 1 and isinstance(node.args[0], (ast.List, ast.Tuple)):
        ent = []
        for e in node.args[0].elts:
            if not (isinstance(e, (ast.List, ast.Tuple)) and len(e.elts) == 2 and isinstance(e.elts[0], ast.Constant)):
                return None
            ent.append((e.elts[0].value, e.elts[1]))
        return ent
    return None


def _module_tables(fd):
    """module-level constant tables visible to fd: name -> entries"""
    mod = fd
    while getattr(mod, 'parent', None) is not None:
        mod = mod.parent
    out = {}
    for st in getattr(mod, 'body', []):
        if isinstance(st, ast.Assign) and len(st.targets) == 1 and isinstance(st.targets[0], ast.Name):
            t = _const_table(st.value)
            if t is not None:
                out[st.targets[0].id] = t
    return out


def _table_lookup(e, tables):
    """`T.get(k)` / `T[k]` on a constant table -> its entries"""
    if isinstance(e, ast.Call) and isinstance(e.func, ast.Attribute) and e.func.attr == 'get' and isinstance(e.func.value, ast.Name) and e.func.value.id in tables and e.args:
        return tables[e.func.value.id]
    if isinstance(e, ast.Subscript) and isinstance(e.value, ast.Name) and e.value.id in tables:
        return tables[e.value.id]
    return None


def _table_rows_for(fd, tables, name, depth=0):
    if depth > 4:
        return None
    """a local bound (directly or by destructuring position i) to a lookup in a constant table: [(row value node, i or None)]"""
    for d in walk_no_nested(fd):
        if not isinstance(d, ast.Assign) or len(d.targets) != 1:
            continue
        t = d.targets[0]
        if isinstance(t, ast.Name) and t.id == name:
            rows = _table_lookup(d.value, tables)
            if rows is not None:
                return [(v, None) for _, v in rows]
            if isinstance(d.value, ast.Name):
                return _table_rows_for(fd, tables, d.value.id, depth + 1)
            # pathsem-style destructuring written by the JS front end: x = tmp[i]
            if isinstance(d.value, ast.Subscript) and isinstance(d.value.value, ast.Name) and isinstance(d.value.slice, ast.Constant) and isinstance(d.value.slice.value, int):
                inner = _table_rows_for(fd, tables, d.value.value.id, depth + 1)
                if inner is not None:
                    return [(v, d.value.slice.value) for v, _ in inner]
        if isinstance(t, (ast.Tuple, ast.List)):
            for i, el in enumerate(t.elts):
                if isinstance(el, ast.Name) and el.id == name:
                    src_ = d.value
                    rows = _table_lookup(src_, tables)
                    if rows is None and isinstance(src_, ast.Name):
                        inner = _table_rows_for(fd, tables, src_.id, depth + 1)
                        rows = [(None, v) for v, _ in inner] if inner is not None else None
                    if rows is not None:
                        return [(v, i) for _, v in rows]
    return None

def _pick_component(v, i):
    if i is None:
        return v
    if isinstance(v, (ast.List, ast.Tuple)) and i < len(v.elts):
        return v.elts[i]
    return None



def table_operand_values(fd, name):
    """the constant-table values a local name can stand for (None when it is not bound to a lookup in a constant table)"""
    rows = _table_rows_for(fd, _module_tables(fd), name)
    if rows is None:
        return None
    vals = [_pick_component(v, i) for v, i in rows]
    return None if any(v is None for v in vals) else vals


def _replacement_sequence(fd, port):
    """the replacements a function applies, in execution order: [(order key, source, replacement, all occurrences?, node)].
    Understands statement sequences, chained `.replace().replace()`, a loop over a constant sequence of (source, replacement)
    pairs (unrolled), one-pass replacement of a character class through a constant table (`replace(/[..]/g, c => T.get(c))`:
    one simultaneous entry per character), and (search, replacement) pairs taken from a constant table keyed by a parameter
    (one entry per table row)."""
    out = []
    tables = _module_tables(fd)
    spell = {'\n': '\\n', '\r': '\\r', '\t': '\\t', '\\': '\\\\'} if port == 'js' else {}

    table_rows_for = lambda name: _table_rows_for(fd, tables, name)  # noqa: E731
    pick = _pick_component

    def one(n, key, env):
        a0, a1 = n.args
        if isinstance(a0, ast.Name) and a0.id in env:
            a0 = env[a0.id]
        if isinstance(a1, ast.Name) and a1.id in env:
            a1 = env[a1.id]
        # (search, replacement) both taken from the same row of a constant table
        if isinstance(a0, ast.Name) and isinstance(a1, ast.Name):
            r0, r1 = table_rows_for(a0.id), table_rows_for(a1.id)
            if r0 is not None and r1 is not None and len(r0) == len(r1):
                for j, ((v0, i0), (v1, i1)) in enumerate(zip(r0, r1)):
                    twin = ast.Call(func=n.func, args=[pick(v0, i0) or a0, pick(v1, i1) or a1], keywords=[])
                    ast.copy_location(twin, n)
                    one(twin, key + ('row', j), {})
                return
        # one pass over a character class through a constant table
        fn = a1 if isinstance(a1, ast.Lambda) else getattr(a1, 'js_function_ref', None)
        if fn is not None and isinstance(a0, ast.Call) and dotted(a0.func) == '__regex__' and 'g' in a0.args[1].value:
            prm = [a.arg for a in fn.args.args][:1]
            body = fn.body if isinstance(fn, ast.Lambda) else (fn.body[0].value if len(fn.body) == 1 and isinstance(fn.body[0], ast.Return) else None)
            rows = _table_lookup(body, tables) if body is not None else None
            pat = a0.args[0].value
            if rows is not None and prm and pat.startswith('[') and pat.endswith(']') and not pat.startswith('[^'):
                import re as _re
                try:
                    tree = _re._parser.parse(R.js_to_py(pat) if port == 'js' else pat)
                    items = tree[0][1] if len(tree) == 1 and str(tree[0][0]) == 'IN' else ([tree[0]] if len(tree) == 1 and str(tree[0][0]) == 'LITERAL' else None)
                except Exception:
                    items = None
                if items is not None and all(str(op) == 'LITERAL' for op, _ in items):
                    chars = [chr(av) for _, av in items]
                    tab = {k: v for k, v in rows}
                    if all(c in tab and isinstance(tab[c], ast.Constant) for c in chars):
                        # simultaneous: list the backslash entry first (order inside one pass is immaterial)
                        for c in sorted(chars, key=lambda c: c != '\\'):
                            src_c = {'\n': '\\n', '\r': '\\r', '\t': '\\t', '\\': '\\\\'}.get(c, c) if port == 'js' else c
                            out.append((key, src_c, tab[c].value, True, n))
                        return
        src = a0.value if isinstance(a0, ast.Constant) else (a0.args[0].value if isinstance(a0, ast.Call) and dotted(a0.func) == '__regex__' else None)
        if port == 'js' and isinstance(a0, ast.Constant) and isinstance(src, str):
            # a literal search string in JavaScript: spell it like the regex sources the tables use
            src = {'\n': '\\n', '\r': '\\r', '\t': '\\t', '\\': '\\\\'}.get(src, src)
        glob = True if isinstance(a0, ast.Constant) and (port == 'py' or getattr(n, 'literal_all', False) or n.func.attr == 'replaceAll') else (isinstance(a0, ast.Call) and dotted(a0.func) == '__regex__' and 'g' in a0.args[1].value)
        dst = a1.value if isinstance(a1, ast.Constant) else None
        out.append((key, src, dst, glob, n))

    def calls_in(node, key, env):
        found = [n for n in ast.walk(node) if isinstance(n, ast.Call) and isinstance(n.func, ast.Attribute) and n.func.attr in ('replace', 'replaceAll') and len(n.args) == 2]
        # helper-style replacement: replace_all(subject, search, replacement) - literal, all occurrences
        for n in ast.walk(node):
            if isinstance(n, ast.Call) and dotted(n.func) == 'replace_all' and len(n.args) == 3:
                twin = ast.Call(func=ast.Attribute(value=n.args[0], attr='replaceAll', ctx=ast.Load()), args=[n.args[1], n.args[2]], keywords=[])
                ast.copy_location(twin, n)
                twin.literal_all = True
                found.append(twin)
        # inner calls of a chain run first: deeper receiver = earlier
        def depth(n):
            d, r = 0, n.func.value
            while isinstance(r, ast.Call) and isinstance(r.func, ast.Attribute):
                d, r = d + 1, r.func.value
            return d
        for i, n in enumerate(sorted(found, key=depth)):
            one(n, key + (i,), env)

    def block(stmts, key):
        for i, st in enumerate(stmts):
            k = key + (i,)
            if isinstance(st, ast.For) and isinstance(st.target, (ast.Tuple, ast.List)) and len(st.target.elts) == 2 and all(isinstance(t, ast.Name) for t in st.target.elts):
                seq = st.iter
                if isinstance(seq, ast.Name):
                    defs = [d for d in walk_no_nested(fd) if isinstance(d, ast.Assign) and is_name(d.targets[0], seq.id)]
                    seq = defs[0].value if len(defs) == 1 else seq
                if isinstance(seq, (ast.Tuple, ast.List)) and all(isinstance(e, (ast.Tuple, ast.List)) and len(e.elts) == 2 for e in seq.elts):
                    for j, e in enumerate(seq.elts):
                        env = {st.target.elts[0].id: e.elts[0], st.target.elts[1].id: e.elts[1]}
                        for b in st.body:
                            calls_in(b, k + (j,), env)
                    continue
            if isinstance(st, (ast.If, ast.For, ast.While, ast.Try, ast.With)):
                for fld in ('body', 'orelse', 'finalbody'):
                    block(getattr(st, fld, []) or [], k + (fld,))
                if isinstance(st, ast.If):
                    calls_in(st.test, k + ('!',), {})
                continue
            calls_in(st, k, {})
    block(fd.body, ())
    out.sort(key=lambda r: tuple(str(x).rjust(6, '0') if isinstance(x, int) else str(x) for x in r[0]))
    return out


def rule_va_esc(cx, rep, port):
    """escape doubles backslashes first, covers quote/LF/CR; quote pair agreement; segment filter disjoint from escaped characters"""
    p = cx.port(port)
    mod = cx.engine_mod(port)
    fname = 'python_string_escape_column_name' if port == 'py' else 'js_string_escape_column_name'
    fd = p.func(mod, fname)
    vm = _varmap_model(cx, port)
    if vm is not None:
        pd_ = p.func(mod, 'parse_dictionary_variables')
        for k_ in ('backslash first', 'escape coverage', 'quote pairs', 'segment class', 'segment test'):
            rep.decide(vm.get('parse_dictionary_variables') is None, k_, pd_, 'quoted-name variables are bound under the spelling a query has to use for that name - blanks, quotes, a tab, a backslash, a line break in the name - for every quote character (parser evaluated on three query texts)', vm.get('parse_dictionary_variables') or '')
        rep.decide(vm.get('parse_attribute_variables') is None, 'attribute variables', p.func(mod, 'parse_attribute_variables'), 'a.name binds the column of that name; an unknown name is the parsing error', vm.get('parse_attribute_variables') or '')
        return
    rep._fallback = 'the variable parsers are outside the abstract interpreter'
    reps = _replacement_sequence(fd, port)
    if not reps:
        raise Undecided('escape function has no replace calls', fd)
    first = reps[0]
    bs = '\\' if port == 'py' else '\\\\'
    rep.decide(first[1] == bs and first[2] == '\\\\', 'backslash first', first[4], 'backslashes are doubled before any other escape', 'backslash doubling is not the first replacement: backslashes introduced by later escapes would be doubled again (or not at all)')
    srcs = {}
    for _, s, d, g, node in reps:
        srcs[s] = (d, g, node)
    need = {('\n' if port == 'py' else '\\n'): '\\n', ('\r' if port == 'py' else '\\r'): '\\r', '"': '\\"', "'": "\\'"}
    for s, d in need.items():
        if s not in srcs:
            rep.violated('escape of {!r}'.format(s), fd, 'the escape function does not rewrite {!r}: a column name containing it cannot be written as a string literal key'.format(s))
        else:
            rep.decide(srcs[s][0] == d and srcs[s][1], 'escape of {!r}'.format(s), srcs[s][2], '{!r} -> {!r} (all occurrences)'.format(s, d), '{!r} is rewritten to {!r} / not globally (must be {!r})'.format(s, srcs[s][0], d))
    # quote pair: "{}[\"{}\"]" with escape(name, '"'), etc.
    pd = p.func(mod, 'parse_dictionary_variables')
    pairs = []
    if port == 'py':
        for n in walk_no_nested(pd):
            if isinstance(n, ast.Assign) and isinstance(n.targets[0], ast.Subscript) and isinstance(n.targets[0].slice, ast.Call):
                fmt = n.targets[0].slice
                tmpl = fmt.func.value.value
                esc = [a for a in fmt.args if isinstance(a, ast.Call) and dotted(a.func) == fname]
                if esc:
                    pairs.append((tmpl, esc[0].args[1].value, n))
        for tmpl, q, node in pairs:
            ok = tmpl == '{}[' + q + '{}' + q + ']'
            rep.decide(ok, 'quote pair ' + q, node, 'key text uses the same quote character that was escaped', 'the variable key `{}` uses a different quote character than the one escaped ({})'.format(tmpl, q))
        rep.require_count('quote pairs', len(pairs), 2, pd)
    else:
        escs = [n for n in ast.walk(pd) if isinstance(n, ast.Assign) and isinstance(n.value, ast.Call) and dotted(n.value.func) == fname and len(n.value.args) == 2]
        keys = [n for n in ast.walk(pd) if isinstance(n, ast.Assign) and isinstance(n.targets[0], ast.Subscript) and isinstance(n.targets[0].slice, ast.JoinedStr)]
        escs, keys = sorted(escs, key=lambda n: (n.lineno, n.col_offset)), sorted(keys, key=lambda n: (n.lineno, n.col_offset))
        if not escs or len(escs) != len(keys):
            rep.undecided('quote pairs', pd, 'escape calls ({}) and key templates ({}) do not pair up'.format(len(escs), len(keys)))
        else:
            okp = True
            n_quotes = 0
            for e, k in zip(escs, keys):
                qa = e.value.args[1]
                vals = k.targets[0].slice.values
                if isinstance(qa, ast.Constant):
                    n_quotes += 1
                    t = ''.join(x.value if isinstance(x, ast.Constant) else '{}' for x in vals)
                    okp = okp and t == '{}[' + qa.value + '{}' + qa.value + ']'
                elif isinstance(qa, ast.Name):
                    # the quote is a loop variable over a constant list of quote characters: the key text must put the same
                    # variable on both sides of the escaped name
                    shape = [('c', x.value) if isinstance(x, ast.Constant) else ('v', dotted(x.value)) for x in vals]
                    want_shape = [('v', None), ('c', '['), ('v', qa.id), ('v', dotted(e.targets[0])), ('v', qa.id), ('c', ']')]
                    okp = okp and len(shape) == 6 and all((w[0] == g[0] and (w[1] is None or w[1] == g[1])) for w, g in zip(want_shape, shape))
                    lp_ = next((f_ for f_ in ast.walk(pd) if isinstance(f_, ast.For) and is_name(f_.target, qa.id)), None)
                    seqv = None
                    if lp_ is not None:
                        seqv = lp_.iter
                        if isinstance(seqv, ast.Name):
                            modn = pd
                            while getattr(modn, 'parent', None) is not None:
                                modn = modn.parent
                            seqv = next((st_.value for st_ in getattr(modn, 'body', []) if isinstance(st_, ast.Assign) and len(st_.targets) == 1 and is_name(st_.targets[0], seqv.id)), seqv)
                    if isinstance(seqv, (ast.List, ast.Tuple)) and all(isinstance(x, ast.Constant) for x in seqv.elts):
                        n_quotes += len(seqv.elts)
                    else:
                        okp = None
                        break
                else:
                    okp = None
                    break
            if okp is None:
                rep.undecided('quote pairs', pd, 'quote character of an escape call not recognised')
            else:
                rep.decide(okp and n_quotes >= 3, 'quote pairs', pd, 'each key text uses the quote character that was escaped ({} spellings)'.format(n_quotes), 'a variable key uses a different quote character than the one its name was escaped for')
    # VA-SEG: candidate filter class disjoint from escaped characters
    qf = p.func(mod, 'query_probably_has_dictionary_variable')
    from .pa import regex_sites
    cls = [st.pattern for st in regex_sites(cx, port) if st.func is qf and st.pattern is not None]
    if len(cls) != 1:
        rep.undecided('segment class', qf, 'segment character class not found')
    else:
        try:
            lang = R.Lang(cls[0], flavour='js' if port == 'js' else 'py')
            hit = [ch for ch in ['\\', '\n', '\r', '\t', '"', "'", '`'] if R.accepts(lang, ch)]
            rep.decide(not hit, 'segment class', qf, 'segments consist only of characters the escape function leaves unchanged', 'the candidate filter searches the query for segments containing {}: the escaped spelling in the query differs, so the variable is never bound'.format(hit))
        except R.Unsupported as e:
            rep.undecided('segment class', qf, str(e))
        t = node_text(qf, 1500).replace(' ', '')
        okq = ('ifquery_text.find(continuous_segment)==-1:returnFalse' in t) or ('ifquery_text.indexOf(continuous_segment)==-1:returnFalse' in t)
        rep.decide(okq and t.rstrip().endswith('returnTrue'), 'segment test', qf, 'candidate iff every segment occurs in the query', 'the candidate test is no longer "every segment occurs in the query"')


def rule_va_record(cx, rep, port='py'):
    """RBQLRecord a/b objects: storage per instance, missing key -> InternalBadKeyError"""
    p = cx.py
    c = p.cls('rbql_engine', 'RBQLRecord')
    t = node_text(c, 2000).replace(' ', '')
    ok = 'self.storage=dict()' in t and 'try:returnself.storage[key]exceptKeyError:raiseInternalBadKeyError(key)' in t and 'self.storage[key]=value' in t
    # two instances evaluated: what one stores the other does not see; a stored key reads back; a missing key is InternalBadKeyError(key)
    from .. import absexec as AX
    ms_ = {m.name: m for m in c.body if isinstance(m, ast.FunctionDef)}
    verdict = None
    try:
        def on_call(ex, node, fname, recv, args):
            if isinstance(node.func, ast.Name) and node.func.id.endswith('Error'):
                return AX.Abs('Exc', cls=node.func.id, args=tuple(args))
            return AX.NOT_HANDLED
        ex = AX.Explorer(p, 'rbql_engine', on_call=on_call, max_choices=1)
        ex.cls = 'RBQLRecord'
        ex._script, ex._pos, ex.steps, ex.depth = [], 0, 0, 0
        ex.run = AX.Run()
        r1, r2 = AX.Abs('Self'), AX.Abs('Self')
        for r_ in (r1, r2):
            if '__init__' in ms_:
                ex.call_fd(ms_['__init__'], [r_])
        ex.call_fd(ms_['__setitem__'], [r1, 'name', 'v1'])
        ex.call_fd(ms_['__setitem__'], [r2, 'other', 'v2'])
        problems = []
        if ex.call_fd(ms_['__getitem__'], [r1, 'name']) != 'v1':
            problems.append('a stored key does not read back')
        for r_, k_ in ((r1, 'other'), (r2, 'name'), (r1, 'missing')):
            try:
                v_ = ex.call_fd(ms_['__getitem__'], [r_, k_])
                problems.append('the key {!r} set on another record (or never) reads as {!r} instead of raising InternalBadKeyError'.format(k_, v_))
            except AX.Raised as ra_:
                if not (isinstance(ra_.value, AX.Abs) and ra_.value.props.get('cls') == 'InternalBadKeyError' and ra_.value.props.get('args') == (k_,)):
                    problems.append('a missing key raises {!r} instead of InternalBadKeyError(key)'.format(ra_.value))
        verdict = '; '.join(problems)
    except (Undecided, AX.Cut, AX._NeedChoice, KeyError, IndexError, TypeError, AttributeError, ValueError):
        verdict = None
    if verdict is not None:
        rep.decide(verdict == '', 'RBQLRecord', c, 'per-instance storage; missing key -> InternalBadKeyError(key) (two instances evaluated)', 'RBQLRecord: ' + verdict)
    elif not ok:
        rep.undecided('RBQLRecord', c, 'RBQLRecord is outside the abstract interpreter and its text is not the known one')
    else:
        rep.decide(ok, 'RBQLRecord', c, 'per-instance storage; missing key -> InternalBadKeyError(key)', 'RBQLRecord no longer keeps per-instance storage / maps a missing key to InternalBadKeyError')
    gc = p.func('rbql_engine', 'generate_common_init_code')
    rep.decide("'{} = RBQLRecord()'.format(variable_prefix)" in node_text(gc, 2000), 'record objects', gc, 'a fresh RBQLRecord per input record', 'a/b are not re-created per record')


def rule_hd_emit(cx, rep, port):
    """the CSV writer emits the header line for every query that has one: either set_header() writes it at once, or - when it is
    kept for later - every normal path through finish() emits it or has tested that nothing is pending"""
    from .. import cfg as cfgmod
    p = cx.port(port)
    sh = p.func('rbql_csv', 'CSVWriter.set_header')
    fin = p.func('rbql_csv', 'CSVWriter.finish')
    hdr = sh.args.args[1].arg
    from ..snippet import inline_single_defs as _isd
    direct = [c for c in walk_no_nested(sh) if isinstance(c, ast.Call) and call_name(c) == 'self.write' and c.args and (hdr in names_in(c.args[0]) or hdr in names_in(_isd(c.args[0], sh, depth=2, any_value=True)))]
    if direct:
        g = cfgmod.CFG(sh)
        # executed whenever the header is present
        tests = [n for n in g.nodes if n.kind == 'test' and hdr in names_in(n.ast)]
        dn = [n for n in g.nodes if cfgmod.node_contains(n, lambda x: x is direct[0])]
        skip = g.exists_path(g.entry, lambda n: n is g.exit, avoid=lambda n: any(n is d for d in dn), edge_ok=lambda a, b, lab: not (any(a is t for t in tests) and lab == 'F') and lab not in ('exc', 'raise'))
        # decided on path summaries when possible: every path that a present header can take hands the header to write()
        from .. import pathsem
        ps_ = pathsem.paths(sh)
        if ps_ is not None:
            def leaf_(e):
                if isinstance(e, ast.Compare) and len(e.ops) == 1 and is_name(e.left, hdr) and is_none(e.comparators[0]) and isinstance(e.ops[0], (ast.Is, ast.Eq)):
                    return False
                return None
            skip = False
            for q_ in ps_:
                if q_.kind == 'raise' or not pathsem.consistent(q_, leaf_):
                    continue
                if not any(isinstance(c_, ast.Call) and call_name(c_) == 'self.write' and c_.args and hdr in names_in(c_.args[0]) for x_ in q_.calls for c_ in ast.walk(x_)):      # (path values have locals substituted)
                    skip = True
        rep.decide(not skip, 'header emission', direct[0], 'set_header() writes a copy of the header at once whenever there is one', 'set_header() can return without writing a header that is present')
        return
    pend = [a for a in walk_no_nested(sh) if isinstance(a, ast.Assign) and (dotted(a.targets[0]) or '').startswith('self.') and hdr in names_in(a.value) and not (isinstance(a.value, ast.Call) and dotted(a.value.func) == 'len')]
    if not pend:
        rep.violated('header emission', sh, 'set_header() neither writes the header nor keeps it: the output has no header line')
        return
    attr = dotted(pend[0].targets[0])
    cls = p.cls('rbql_csv', 'CSVWriter')
    emitters = {m.name for m in cls.body if isinstance(m, ast.FunctionDef) and any(isinstance(x, ast.Attribute) and dotted(x) == attr for x in ast.walk(m)) and any(isinstance(c, ast.Call) and call_name(c) in ('self.write', 'self.stream.write') for c in ast.walk(m)) and m.name not in ('write', 'finish', 'set_header')}

    def emits(n):
        return cfgmod.node_contains(n, lambda x: isinstance(x, ast.Call) and ((call_name(x) or '').split('.')[-1] in emitters or (call_name(x) == 'self.write' and x.args and attr in (dotted(x.args[0]) or ''))))
    g = cfgmod.CFG(fin)
    tests = [n for n in g.nodes if n.kind == 'test' and any(isinstance(x, ast.Attribute) and dotted(x) == attr for x in ast.walk(n.ast))]
    dead = [n for n in g.nodes if n.kind == 'test' and 'broken_pipe' in node_text(n.ast)]

    def edge_ok(a, b, lab):
        if lab in ('exc', 'raise'):
            return False
        if any(a is t for t in tests) and lab == 'F':
            return False     # nothing pending on this branch
        if any(a is t for t in dead) and lab == 'T':
            return False     # the consumer is gone: nothing can be emitted
        return True
    path = g.find_path(g.entry, lambda n: n is g.exit, avoid=emits, edge_ok=edge_ok)
    if path:
        where = [n for n in path if n.ast is not None]
        rep.violated('header emission', where[-1].ast if where else fin, 'the header is kept in `{}` for later, and finish() has a normal path (through line {}) that neither emits it nor has tested that nothing is pending: a query with an empty result loses its header line on that path'.format(attr, where[-1].lineno if where else fin.lineno))
    else:
        rep.holds('header emission', pend[0], 'the deferred header `{}` is emitted, or tested to be absent, on every normal path through finish()'.format(attr))


def _js_column_infos_model(cx):
    """adhoc_parse_select_expression_to_column_infos (JS header inference) evaluated on eleven select lists - numbered and named columns, stars,
    subscripts with a number / a quoted name, aliases, nested brackets, another table's name, blanks and a tab before and after the
    commas: the (table, zero-based index, name, star, alias) per item.  '' / problem / None (outside the abstract interpreter)"""
    if hasattr(cx, '_js_column_infos_model'):
        return cx._js_column_infos_model
    from .. import absexec as AX
    p = cx.js
    mod = cx.engine_mod('js')
    S = '__RBQL_INTERNAL_STAR'
    col = lambda t, i: (t, i, None, False, None)      # noqa: E731
    nm = lambda n_: (None, None, n_, False, None)     # noqa: E731
    al = lambda a_: (None, None, None, False, a_)     # noqa: E731
    cases = [('a1', [], [col('a', 0)]), (' a1 , b12 ', [], [col('a', 0), col('b', 11)]), (S + ',foo', [], [(None, None, None, True, None), nm('foo')]),
             ('a.name , b.' + S, [], [nm('name'), ('b', None, None, True, None)]), ('a[3],b[___RBQL_STRING_LITERAL0___]', ['"x y"'], [col('a', 2), nm('x y')]),
             ('a1 + 1, a2 as total ,len(a3) AS  n2', [], [None, al('total'), al('n2')]), ('f(a1, a2), [a1, a2], a3', [], [None, None, col('a', 2)]),
             ('c.name, c[1]', [], [None, None]), ('a1 ,a2', [], [col('a', 0), col('a', 1)]), ('a1,\ta.name\t,b2', [], [col('a', 0), nm('name'), col('b', 1)]),
             ("a['k'], NR", [], [None, nm('NR')])]
    res = None
    try:
        fd = p.func(mod, 'adhoc_parse_select_expression_to_column_infos')

        def on_call(ex, node, fname, recv, args):
            if fname == 'parseInt' and len(args) >= 1 and isinstance(args[0], str) and args[0].strip().lstrip('+-').isdigit():
                return int(args[0].strip())
            if isinstance(node.func, ast.Name) and node.func.id.endswith('Error'):
                return AX.Abs('Exc', cls=node.func.id)
            return AX.NOT_HANDLED
        out = ''
        for text, lits, want in cases:
            runs, cut = AX.Explorer(p, mod, on_call=on_call, max_choices=1).explore(fd, [text, list(lits)])
            if cut or len(runs) != 1 or runs[0].outcome[0] != 'return' or not isinstance(runs[0].outcome[1], list):
                raise Undecided('no list of column infos for {!r}'.format(text), fd)
            got = [None if v is None else (tuple(v.get(k) for k in ('table_name', 'column_index', 'column_name', 'is_star', 'alias_name')) if isinstance(v, dict) else v) for v in runs[0].outcome[1]]
            if got != want and not out:
                def show(vs):
                    return ['no column info' if v is None else '(table {}, index {}, name {}, star {}, alias {})'.format(*v) if isinstance(v, tuple) and len(v) == 5 else repr(v) for v in vs]
                out = 'for the select list `{}` the header inference gives {} instead of {}'.format(text.replace('\t', '<TAB>'), show(got), show(want))
        res = out
    except (Undecided, AX.Cut, AX._NeedChoice, AX.Raised, KeyError, IndexError, TypeError, AttributeError, ValueError) as e_:
        import os
        if os.environ.get('RBQL_VERIF_DEBUG'):
            print('JS column infos model gave up:', type(e_).__name__, str(e_)[:200])
        res = None
    cx._js_column_infos_model = res
    return res


def rule_hd_spantrim(cx, rep, port='js'):
    """javascript header inference works on the text of each select item: the blanks around an item are removed with trim(), i.e. every
    character the expression parser itself skips.  A helper that removes plain spaces only leaves a tab / no-break space / line break
    in front of `a.name`, and the item is then named colK although it is a plain column."""
    from .. import regexlang as R
    p = cx.js
    mod = cx.engine_mod('js')
    jm = _js_column_infos_model(cx)
    if jm is not None:
        fd_ = p.func(mod, 'adhoc_parse_select_expression_to_column_infos')
        for fname in ('parse_root_bracket_level_text_spans', 'column_info_from_text_span'):
            rep.decide(jm == '', fname + ' item text', fd_, 'blanks and tabs around select items do not change the inferred column (header inference evaluated on eleven select lists)', jm)
        return
    rep._fallback = 'the JS header inference is outside the abstract interpreter'
    n = 0
    for fname in ('parse_root_bracket_level_text_spans', 'column_info_from_text_span'):
        fd = p.func(mod, fname, required=False)
        if fd is None:
            continue
        trims = [c for c in ast.walk(fd) if isinstance(c, ast.Call) and isinstance(c.func, ast.Attribute) and c.func.attr == 'trim' and not c.args]
        weak = []
        cands = [c for c in ast.walk(fd) if isinstance(c, ast.Call) and isinstance(c.func, ast.Name)] + [ast.Call(func=a, args=[], keywords=[]) for c in ast.walk(fd) if isinstance(c, ast.Call) and isinstance(c.func, ast.Attribute) and c.func.attr == 'map' for a in c.args if isinstance(a, ast.Name)]
        for c in cands:
            h = p.func(mod, c.func.id, required=False)
            if h is None or len(h.args.args) != 1:
                continue
            # a helper that is one anchored replace of its argument by the empty string
            reps = [x for x in ast.walk(h) if isinstance(x, ast.Call) and isinstance(x.func, ast.Attribute) and x.func.attr == 'replace' and len(x.args) == 2 and isinstance(x.args[0], ast.Call) and dotted(x.args[0].func) == '__regex__' and isinstance(x.args[1], ast.Constant) and x.args[1].value == '']
            if len(reps) != 1 or not is_name(reps[0].func.value, h.args.args[0].arg):
                continue
            pat = reps[0].args[0].args[0].value
            try:
                # `^X|X$`: the alternatives of a both-ends strip, each anchored at one end
                alts = pat.split('|') if not any(ch in pat for ch in '()') else [pat]
                langs = [R.Lang(a_.lstrip('^').rstrip('$'), flavour='js') for a_ in alts]
                missed = [repr(w) for w in ('\t', ' ', '\n') if not any(R.accepts(l_, w) for l_ in langs)]
                blanks = any(R.accepts(l_, ' ') for l_ in langs)
            except R.Unsupported:
                continue
            if blanks and missed:
                weak.append((c, h.name, pat, missed))
        if weak and not trims:
            c, hn, pat, missed = weak[0]
            n += 1
            rep.violated(fname + ' item text', fd, 'select items are stripped with {}() (`{}`), which leaves {} around an item: such an item is no longer recognised as a plain column and is named colK'.format(hn, pat, ', '.join(missed)))
        elif trims:
            n += 1
            rep.holds(fname + ' item text', trims[0], 'select items are stripped with trim()')
        else:
            rep.undecided(fname + ' item text', fd, 'how the blanks around a select item are removed was not recognised')
    rep.require_count('select item normalisations', n, 2, (p.files[mod], 0))
