"""HD / VA rules (C07, C09): header synthesis and variable binding."""
import ast
import sys

from .. import regexlang as R
from ..core import Undecided, node_text
from ..idioms import is_name, negated
from ..model import call_name, const_value, dotted, is_none, names_in, walk_no_nested, NOCONST
from ..snippet import alpha_equal, contains_stmts, contains_expr


# ------------------------------------------------------------------------------------------------ header
def rule_hd_table(cx, rep, port):
    """select_output_header: decision table total and ordered: None -> colK; star -> header lists; column name; alias;
    index in range -> source name; else colK"""
    p = cx.port(port)
    mod = cx.engine_mod(port)
    fd = p.func(mod, 'select_output_header')
    loops = [n for n in fd.body if isinstance(n, ast.For)]
    if not loops:
        raise Undecided('select_output_header: naming loop not found', fd)
    lp = loops[-1]
    chain = []
    cur = lp.body[0] if lp.body and isinstance(lp.body[0], ast.If) else None
    if cur is None:
        raise Undecided('select_output_header: decision chain not found', lp)
    while cur is not None:
        chain.append((cur.test, cur.body))
        if len(cur.orelse) == 1 and isinstance(cur.orelse[0], ast.If):
            cur = cur.orelse[0]
        else:
            if cur.orelse:
                chain.append((None, cur.orelse))
            cur = None
    def kind(test):
        if test is None:
            return 'else'
        t = node_text(test)
        if t in ('qci is None',):
            return 'none'
        if t == 'qci.is_star':
            return 'star'
        if t == 'qci.column_name is not None':
            return 'name'
        if t == 'qci.alias_name is not None':
            return 'alias'
        if t == 'qci.column_index is not None':
            return 'index'
        return '?' + t
    kinds = [kind(t) for t, b in chain]
    want = ['none', 'star', 'name', 'alias', 'index', 'else']
    if kinds != want:
        rep.violated('decision order', lp, 'naming decisions are taken in the order {} (must be {})'.format(kinds, want))
        return
    rep.holds('decision order', lp, 'None, star, column name, alias, index, fallback')
    def appended(body):
        out = []
        for s in body:
            for c in ast.walk(s):
                if isinstance(c, ast.Call) and isinstance(c.func, ast.Attribute) and c.func.attr in ('append', 'push') and dotted(c.func.value) == 'output_header':
                    out.append(node_text(c.args[0]))
        return out
    colk = lambda s: s.replace(' ', '') in ("'col{}'.format(len(output_header)+1)", "'col'+(len(output_header)+1)")  # noqa: E731
    b = dict(zip(kinds, [bd for t, bd in chain]))
    rep.decide(len(appended(b['none'])) == 1 and colk(appended(b['none'])[0]), 'unnamed column', b['none'][0], 'colK with K = position in the output', 'an unnamed column is named `{}` instead of col<position in output>'.format(appended(b['none'])))
    rep.decide(appended(b['name']) == ['qci.column_name'], 'column name', b['name'][0], 'a.name / a["name"] / bare variable -> that name', 'named-column arm appends {}'.format(appended(b['name'])))
    rep.decide(appended(b['alias']) == ['qci.alias_name'], 'alias', b['alias'][0], 'expr AS name -> the alias', 'alias arm appends {}'.format(appended(b['alias'])))
    rep.decide(all(colk(x) for x in appended(b['else'])) and len(appended(b['else'])) == 1, 'fallback', b['else'][0], 'fallback colK', 'fallback arm appends {}'.format(appended(b['else'])))
    # index arm
    ib = b['index']
    ok = False
    if len(ib) == 1 and isinstance(ib[0], ast.If):
        i1 = ib[0]
        t1 = node_text(i1.test)
        a1 = appended(i1.body)
        i2 = i1.orelse[0] if len(i1.orelse) == 1 and isinstance(i1.orelse[0], ast.If) else None
        if i2 is not None:
            t2 = node_text(i2.test)
            a2 = appended(i2.body)
            a3 = appended(i2.orelse)
            ok = (t1 == "qci.table_name == 'a' and qci.column_index < len(input_header)" and a1 == ['input_header[qci.column_index]'] and t2 == "qci.table_name == 'b' and qci.column_index < len(join_header)" and a2 == ['join_header[qci.column_index]'] and len(a3) == 1 and colk(a3[0]))
    rep.decide(ok, 'index arm', ib[0], 'aN -> input name N if in range, bN -> join name N if in range, else colK', 'the aN/bN naming arm no longer maps an in-range index to the source column name of its own table (else colK)')
    # star arm
    sb = b['star']
    ok = False
    if len(sb) == 1 and isinstance(sb[0], ast.If):
        txt = node_text(sb[0], 1200).replace(' ', '')
        if port == 'py':
            ok = ("ifqci.table_nameisNone:output_header+=input_header+join_header" in txt and "elifqci.table_name=='a':output_header+=input_header" in txt and "elifqci.table_name=='b':output_header+=join_header" in txt)
        else:
            ok = ("ifqci.table_nameisNone:output_header=output_header.concat(input_header).concat(join_header)" in txt and "elifqci.table_name=='a':output_header=output_header.concat(input_header)" in txt and "elifqci.table_name=='b':output_header=output_header.concat(join_header)" in txt)
    rep.decide(ok, 'star arm', sb[0], '* -> input names then join names; a.* -> input names; b.* -> join names', 'star expansion of the header no longer appends (input + join) / input / join names for * / a.* / b.*')
    # HD-NOHDR
    pre = [n for n in fd.body if isinstance(n, ast.If) and node_text(n.test) == 'input_header is None' and any(isinstance(x, ast.Return) for x in ast.walk(n))]
    okn = False
    if pre:
        rets = [x for x in ast.walk(pre[-1]) if isinstance(x, ast.Return)]
        okn = len(rets) == 1 and is_none(rets[0].value) and isinstance(rets[0].parent, ast.If) and node_text(rets[0].parent.test) == 'not query_has_column_alias'
        resets = [x for x in pre[-1].body if isinstance(x, ast.Assign) and isinstance(x.value, ast.List) and not x.value.elts]
        okn = okn and len(resets) == 2
    rep.decide(okn, 'no input header', pre[-1] if pre else fd, 'without an input header an output header exists only when aliases are used', 'without an input header the function does not return None exactly when no alias is used')
    rets = [r for r in walk_no_nested(fd) if isinstance(r, ast.Return) and r.value is not None and not is_none(r.value)]
    rep.decide(len(rets) == 1 and is_name(rets[0].value, 'output_header'), 'result', rets[0] if rets else fd, 'returns the assembled header', 'does not return the assembled header')
    flags = [n for n in walk_no_nested(fd) if isinstance(n, ast.Assign) and is_name(n.targets[0], 'query_has_column_alias')]
    okf = len(flags) == 2 and 'qci.alias_name is not None' in node_text(flags[1].value)
    rep.decide(okf, 'alias detection', flags[-1] if flags else fd, 'alias presence = some column info has an alias', 'alias detection changed')


def rule_hd_shapes(cx, rep, port='py'):
    """the node classes tested in the subscript branch of column_info_from_node cover the shapes ast.parse of this interpreter
    produces for a[1] and a["x"]"""
    p = cx.py
    fd = p.func('rbql_engine', 'column_info_from_node')
    branch = [n for n in fd.body if isinstance(n, ast.If) and 'ast.Subscript' in node_text(n.test)]
    if len(branch) != 1:
        raise Undecided('column_info_from_node: subscript branch not found', fd)
    br = branch[0]
    tested = set()
    for c in ast.walk(br):
        if isinstance(c, ast.Call) and dotted(c.func) == 'isinstance' and len(c.args) == 2:
            d = dotted(c.args[1]) or ''
            if d.startswith('ast.'):
                tested.add(d[4:])
    # shapes produced by the interpreter that runs the repository (static facts about ast.parse, not about /repo code)
    shapes = set()
    for src in ('a[1]', 'a["x"]'):
        sl = ast.parse(src).body[0].value.slice
        shapes.add(type(sl).__name__)
    # an early return on "not isinstance(slice, Index)" makes everything else unreachable
    early = [n for n in br.body if isinstance(n, ast.If) and isinstance(n.body[-1], ast.Return) and 'not isinstance(slice_root, ast.Index)' in node_text(n.test)]
    if early:
        rep.violated('subscript shapes', early[0], 'the subscript branch returns None unless the slice is an ast.Index, but python {}.{} produces {} for a[1] / a["x"]: such items are named colK instead of the source column'.format(sys.version_info[0], sys.version_info[1], sorted(shapes)))
        return
    missing = shapes - tested
    rep.decide(not missing, 'subscript shapes', br, 'slice node classes tested {} cover what this interpreter produces {}'.format(sorted(tested), sorted(shapes)), 'slice node classes {} produced by this interpreter are not handled (tested: {})'.format(sorted(missing), sorted(tested)))
    # N-1 for numeric subscripts
    minus = [n for n in ast.walk(br) if isinstance(n, ast.Assign) and is_name(n.targets[0], 'column_index') and isinstance(n.value, ast.BinOp)]
    okm = minus and all(isinstance(m.value.op, ast.Sub) and isinstance(m.value.right, ast.Constant) and m.value.right.value == 1 for m in minus)
    rep.decide(bool(okm), 'subscript index', minus[0] if minus else br, 'a[N] -> zero-based index N-1', 'a[N] is not converted to the zero-based index N-1')
    # Name branch: aN -> N-1 with the anchored pattern
    nb = [n for n in fd.body if isinstance(n, ast.If) and 'ast.Name' in node_text(n.test)]
    okn = False
    if nb:
        pats = [c.value for c in ast.walk(nb[0]) if isinstance(c, ast.Constant) and isinstance(c.value, str) and '[ab]' in c.value]
        idx = [n for n in ast.walk(nb[0]) if isinstance(n, ast.Assign) and is_name(n.targets[0], 'column_index')]
        okn = len(pats) == 1 and pats[0].startswith('^') and pats[0].endswith('$') and len(idx) == 1 and '- 1' in node_text(idx[0].value)
    rep.decide(okn, 'variable index', nb[0] if nb else fd, 'aN/bN (anchored) -> table and zero-based index', 'aN/bN names are not recognised by an anchored pattern yielding index N-1')
    ab = [n for n in fd.body if isinstance(n, ast.If) and 'ast.Attribute' in node_text(n.test)]
    oka = bool(ab) and "table_name not in ['a', 'b']" in node_text(ab[0], 3000)
    rep.decide(oka, 'attribute table', ab[0] if ab else fd, 'a.name / b.name only', 'attribute access on something other than a/b is treated as a column')
    al = p.func('rbql_engine', 'search_for_as_alias_pseudo_function')
    root = al.args.args[0].arg
    loops = [n for n in walk_no_nested(al) if isinstance(n, ast.For)]
    if len(loops) == 1:
        it = loops[0].iter
        if isinstance(it, ast.Call) and dotted(it.func) == 'ast.walk' and it.args and is_name(it.args[0], root) and not any(isinstance(x, ast.Return) and x.lineno < loops[0].lineno for x in walk_no_nested(al)):
            rep.holds('alias search', loops[0], 'the alias pseudo-call is searched in the whole expression tree')
        elif root in names_in(it):
            rep.violated('alias search', loops[0], 'the alias pseudo-call is searched only in `{}`, not in the whole expression tree: `==` binds tighter than or/and/not/ternary, so for such expressions the alias is not at the top and the column loses its alias name'.format(node_text(it, 80)))
        else:
            rep.undecided('alias search', loops[0], 'alias search traversal not recognised')
    else:
        early = [x for x in walk_no_nested(al) if isinstance(x, ast.If) and 'isinstance' in node_text(x.test) and isinstance(x.body[0], ast.Return)]
        if early:
            rep.violated('alias search', early[0], 'the alias search gives up unless the expression root has a particular node type (`{}`): aliases on boolean/ternary expressions are lost'.format(node_text(early[0].test, 80)))
        else:
            rep.undecided('alias search', al, 'alias search loop not found')
    early = [x for x in al.body if isinstance(x, ast.If) and isinstance(x.body[-1], ast.Return) and 'isinstance' in node_text(x.test)]
    if early:
        rep.violated('alias search root test', early[0], 'the alias search returns early depending on the root node type (`{}`): aliases on boolean/ternary expressions are lost'.format(node_text(early[0].test, 80)))
    okl = "'alias_column_as_pseudo_func'" in node_text(al, 5000)
    ts = p.func('rbql_engine', 'translate_select_expression')
    okl = okl and 'alias_column_as_pseudo_func(\\\\2)' in node_text(ts, 5000)
    rep.decide(okl, 'alias marker', al, 'the AS rewrite and the AST search use the same pseudo-function name', 'the alias pseudo-function name differs between the rewrite and the AST search')


def rule_hd_startwin(cx, rep, port):
    """the two star-rewriting regexes agree on the star token and have the same replacement keys; the record-side skips the
    look-ahead comma, the header-side does not"""
    p = cx.port(port)
    mod = cx.engine_mod(port)
    f1 = p.func(mod, 'replace_star_vars')
    f2 = p.func(mod, 'replace_star_vars_for_ast' if port == 'py' else 'replace_star_vars_for_header_parsing')
    def info(fd):
        pat = None
        for c in walk_no_nested(fd):
            if isinstance(c, ast.Call) and dotted(c.func) == 're.finditer' and isinstance(c.args[0], ast.Constant):
                pat = c.args[0].value
            if isinstance(c, ast.Call) and dotted(c.func) == '__regex__':
                pat = c.args[0].value
        keys = None
        vals = None
        for d in ast.walk(fd):
            if isinstance(d, ast.Dict) and d.keys and all(isinstance(k, ast.Constant) for k in d.keys):
                keys = [k.value for k in d.keys]
                vals = [v.value if isinstance(v, ast.Constant) else None for v in d.values]
        return pat, keys, vals
    p1, k1, v1 = info(f1)
    p2, k2, v2 = info(f2)
    if not p1 or not p2:
        raise Undecided('star regexes not found', f1)
    rep.decide(k1 == k2 == ['*', 'a.*', 'b.*'], 'star keys', f1, 'both rewrites know *, a.*, b.*', 'the star rewrites know different star forms: {} vs {}'.format(k1, k2))
    rep.decide(v1 == ['star_fields', 'record_a', 'record_b'], 'star targets', f1, '* -> star_fields, a.* -> record_a, b.* -> record_b', 'star forms expand to {} (must be star_fields, record_a, record_b)'.format(v1))
    core = '(\\*|a\\.\\*|b\\.\\*)'
    rep.decide(core in p1 and core in p2, 'star token', f1, 'same star token in both patterns', 'the star token differs between the record-side and header-side patterns')
    rep.decide(p1.endswith(' *(?=$|,)') and p2.endswith(' *(?=$|,)'), 'star right context', f1, 'a star item ends at a comma or the end', 'star right context changed')
    # fresh list expansion on the record side: '] + X + [' / ']).concat(X).concat(['
    expr = [n for n in walk_no_nested(f1) if isinstance(n, ast.Assign) and is_name(n.targets[0], 'replacement_expression')]
    txt = node_text(expr[0].value, 400) if expr else ''
    okx = ("'] + '" in txt and "' + ['" in txt) if port == 'py' else ("']).concat('" in txt and "').concat(['" in txt)
    rep.decide(okx, 'star expansion form', expr[0] if expr else f1, 'a star item closes the list literal, concatenates the record and reopens a literal: the result is a fresh list', 'star items are no longer spliced by concatenation into a fresh list')
    skip1 = [n for n in walk_no_nested(f1) if isinstance(n, ast.Assign) and is_name(n.targets[0], 'last_pos') and isinstance(n.value, ast.BinOp)]
    ok1 = any(node_text(s.value).endswith('+ 1') for s in skip1)
    skip2 = [n for n in walk_no_nested(f2) if isinstance(n, ast.Assign) and is_name(n.targets[0], 'last_pos') and isinstance(n.value, (ast.BinOp, ast.Call))]
    ok2 = skip2 and not any(node_text(s.value).endswith('+ 1') for s in skip2)
    rep.decide(ok1 and ok2, 'comma handling', skip1[0] if skip1 else f1, 'record side consumes the comma after a star (the concatenation replaces it); header side keeps it', 'comma handling after a star item changed: the record-side and header-side item counts would differ')
    # wrapping: '[{}]' / '[].concat([...])'
    ts = p.func(mod, 'translate_select_expression')
    rets = [r for r in walk_no_nested(ts) if isinstance(r, ast.Return)]
    t = node_text(rets[-1].value, 300) if rets else ''
    okw = ("'[{}]'.format(translated)" in t) if port == 'py' else ("f'[].concat([{translated}])'" in t)
    rep.decide(okw, 'list wrapping', rets[-1] if rets else ts, 'the select list is evaluated as a fresh list literal', 'the translated select list is no longer wrapped as a fresh list literal')


def rule_hd_except(cx, rep, port):
    p = cx.port(port)
    mod = cx.engine_mod(port)
    fd = p.func(mod, 'translate_except_expression')
    srt = [c for c in walk_no_nested(fd) if isinstance(c, ast.Call) and (dotted(c.func) == 'sorted' or (isinstance(c.func, ast.Attribute) and c.func.attr == 'sort'))]
    rep.decide(len(srt) == 1, 'index order', srt[0] if srt else fd, 'skip indices are sorted', 'skip indices are not sorted once')
    hdr = [n for n in walk_no_nested(fd) if isinstance(n, ast.Assign) and is_name(n.targets[0], 'output_header')]
    okh = len(hdr) == 1 and isinstance(hdr[0].value, ast.IfExp) and 'input_header is None' in node_text(hdr[0].value.test) and node_text(hdr[0].value.orelse) == 'select_except(input_header, skip_indices)'
    rep.decide(okh, 'header projection', hdr[0] if hdr else fd, 'header = select_except(input_header, same indices); None without header', 'the EXCEPT header is not computed with select_except(input_header, <the same indices>)')
    rets = [r for r in walk_no_nested(fd) if isinstance(r, ast.Return)]
    t = node_text(rets[-1].value, 300) if rets else ''
    okr = 'select_except(record_a, [' in t
    rep.decide(okr, 'record projection', rets[-1] if rets else fd, 'records = select_except(record_a, [indices])', 'the EXCEPT record expression is not select_except(record_a, [indices])')
    idx = [c for c in walk_no_nested(fd) if isinstance(c, ast.Call) and isinstance(c.func, ast.Attribute) and c.func.attr in ('append', 'push') and dotted(c.func.value) == 'skip_indices']
    oki = len(idx) == 1 and node_text(idx[0].args[0]) in ('var_info.index', 'input_variables_map[var_name].index')
    rep.decide(oki, 'index source', idx[0] if idx else fd, 'indices come from the variable map', 'EXCEPT indices do not come from the variable map entries')
    unk = [r for r in walk_no_nested(fd) if isinstance(r, ast.Raise)]
    rep.decide(len(unk) == 1 and 'RbqlParsingError' in node_text(unk[0]), 'unknown field', unk[0] if unk else fd, 'unknown field -> parsing error', 'an unknown EXCEPT field is not a parsing error')
    se = p.func(mod, 'select_except')
    t = node_text(se, 800).replace(' ', '')
    oks = ('ifinotinexcept_fields:result.append(v)' in t) if port == 'py' else ('ifexcept_fields.indexOf(i)==-1:result.push(src[i])' in t)
    fresh = any(isinstance(n, ast.Assign) and is_name(n.targets[0], 'result') and ((isinstance(n.value, ast.Call) and dotted(n.value.func) == 'list') or isinstance(n.value, ast.List)) for n in walk_no_nested(se))
    rep.decide(oks and fresh, 'select_except', se, 'keeps, in order, the fields whose index is not excluded, in a new list', 'select_except no longer keeps exactly the non-excluded fields in order in a fresh list')


def rule_hd_update(cx, rep, port):
    """UPDATE header = input header; writers that enforce width"""
    from .conf import table
    w, rows, n = table(cx, port)
    bad = None
    good = 0
    for r in rows:
        if r.error is None and r.atoms['UPDATE'] and not r.atoms['SELECT']:
            hdr = [e for e in r.events if e.kind == 'sink' and e.what == 'set_header']
            if len(hdr) == 1 and hdr[0].extra['args'] == ['input_header']:
                good += 1
            else:
                bad = (r, hdr[0].node if hdr else w.fd)
    if bad:
        rep.violated('update header', bad[1], 'UPDATE does not hand the unchanged input header to the writer (configuration {})'.format(bad[0].name()))
    else:
        rep.holds('update header', w.fd, '{} UPDATE paths hand input_header to set_header'.format(good))
    rep.require_count('update paths', good + (1 if bad else 0), 4, w.fd)
    if port == 'py':
        p = cx.py
        wr = p.func('rbql_csv', 'CSVWriter.write')
        from .. import snippet
        from .. import cfg as cfgmod
        fields = wr.args.args[1].arg
        guards = [i for i in walk_no_nested(wr) if isinstance(i, ast.If) and snippet.alpha_equal(snippet.inline_single_defs(i.test, wr), 'self.header_len is not None and len({0}) != self.header_len'.format(fields)) and any(isinstance(x, ast.Raise) for x in i.body)]
        ok = False
        first = wr.body[0]
        if guards:
            first = guards[0]
            g = cfgmod.CFG(wr)
            dom = g.dominators()
            tn = [n_ for n_ in g.nodes if n_.ast is first.test]
            outs = [n_ for n_ in g.nodes if cfgmod.node_contains(n_, lambda x: isinstance(x, ast.Call) and call_name(x) == 'self.stream.write')]
            ok = bool(tn) and bool(outs) and all(g.dominates(tn[0], o, dom) for o in outs)
        rep.decide(ok, 'CSVWriter width check', first, 'a record whose width differs from the header is an IO error (tested before anything is written)', 'CSVWriter.write no longer rejects records whose width differs from the header before writing them')
        sh = p.func('rbql_csv', 'CSVWriter.set_header')
        okh = 'self.header_len = len(header)' in node_text(sh, 600)
        rep.decide(okh, 'CSVWriter header width', sh, 'header width recorded', 'header width is not recorded')


# ------------------------------------------------------------------------------------------------ variables
def rule_va_index(cx, rep, port):
    """every variable parser stores index N-1; safe_get guard; b-variables None when record_b is None"""
    p = cx.port(port)
    mod = cx.engine_mod(port)
    for fname in ('parse_basic_variables', 'parse_array_variables'):
        fd = p.func(mod, fname)
        stores = [n for n in walk_no_nested(fd) if isinstance(n, ast.Assign) and isinstance(n.targets[0], ast.Subscript) and is_name(n.targets[0].value, 'dst_variables_map')]
        ok = len(stores) == 1 and 'field_num - 1' in node_text(stores[0].value)
        rep.decide(ok, fname + ' index', stores[0] if stores else fd, 'variable N -> zero-based index N-1', '{} does not map variable N to index N-1 (`{}`)'.format(fname, node_text(stores[0].value) if stores else ''))
        if stores:
            k = node_text(stores[0].targets[0].slice)
            okk = ('prefix' in k and 'field_num' in k)
            rep.decide(okk, fname + ' key', stores[0], 'keyed by the variable spelling (prefix + N)', 'the variable map key is not built from prefix and N')
    sg = p.func(mod, 'safe_get')
    okg = alpha_equal(sg, "def safe_get(record, idx):\n    return record[idx] if idx < len(record) else None")
    rep.decide(okg, 'safe_get', sg, 'record[idx] if idx < len(record) else None', 'safe_get is no longer equivalent to "record[idx] if idx < len(record) else None" (`{}`)'.format(node_text(sg.body[-1], 120)))
    ss = p.func(mod, 'safe_set')
    oks = alpha_equal(ss, "def safe_set(record, idx, value):\n    try:\n        record[idx] = value\n    except IndexError:\n        raise InternalBadFieldError(idx)") or alpha_equal(ss, "def safe_set(record, idx, value):\n    if idx < len(record):\n        record[idx] = value\n    else:\n        raise InternalBadFieldError(idx)") or alpha_equal(ss, "def safe_set(record, idx, value):\n    if not idx < len(record):\n        raise InternalBadFieldError(idx)\n    record[idx] = value")
    rep.decide(oks, 'safe_set', ss, 'assignment within the record, otherwise the bad-field error with the index', 'safe_set no longer assigns within the record and raises InternalBadFieldError(idx) for every index beyond it (`{}`)'.format(node_text(ss, 200)))
    sj = p.func(mod, 'safe_join_get')
    okj = alpha_equal(sj, "def safe_join_get(record, idx):\n    try:\n        return record[idx]\n    except IndexError:\n        raise InternalBadFieldError(idx)") or alpha_equal(sj, "def safe_join_get(record, idx):\n    if idx < len(record):\n        return record[idx]\n    raise InternalBadFieldError(idx)")
    rep.decide(okj, 'safe_join_get', sj, 'join key field or the bad-field error', 'safe_join_get no longer returns the field or raises InternalBadFieldError(idx) beyond the record')
    gi = p.func(mod, 'generate_init_statements')
    tmpl = [c.value if isinstance(c, ast.Constant) else const_value(c) for c in ast.walk(gi) if isinstance(c, (ast.Constant, ast.JoinedStr))]
    tm = [t for t in tmpl if isinstance(t, str)]
    txt = node_text(gi, 4000)
    if port == 'py':
        oka = "'{} = safe_get(record_a, {})'.format(var_name, var_info.index)" in txt
        okb = "'{} = safe_get(record_b, {}) if record_b is not None else None'.format(var_name, var_info.index)" in txt
    else:
        oka = '{variable_name} = safe_get(record_a, {var_info.index});' in txt
        okb = '{variable_name} = record_b === null ? null : safe_get(record_b, {var_info.index});' in txt
    rep.decide(oka, 'a-variable init', gi, 'aN = safe_get(record_a, index)', 'a-variables are no longer initialised as safe_get(record_a, index)')
    rep.decide(okb, 'b-variable init', gi, 'bN = safe_get(record_b, index), None when record_b is None', 'b-variables are no longer None when there is no join partner')
    init_only = [n for n in ast.walk(gi) if isinstance(n, ast.If) and node_text(n.test) == 'var_info.initialize']
    rep.decide(len(init_only) == 2, 'initialize flag', gi, 'only variables flagged initialize are bound', 'the initialize flag is not honoured for both tables')
    gc = p.func(mod, 'generate_common_init_code')
    t = node_text(gc, 2000)
    okn = "base_var = 'NR' if variable_prefix == 'a' else 'bNR'" in t and ("'aNR = NR'" in t or "'aNR = NR;'" in t)
    rep.decide(okn, 'NR aliases', gc, 'a.NR/aNR = NR, b.NR = bNR', 'the NR aliases (a.NR, aNR, b.NR) are no longer bound to NR / bNR')


def rule_va_enum(cx, rep, port):
    """name -> index maps come from the enumerate position of the header"""
    p = cx.port(port)
    mod = cx.engine_mod(port)
    fa = p.func(mod, 'parse_attribute_variables')
    fdv = p.func(mod, 'parse_dictionary_variables')
    fm = p.func(mod, 'map_variables_directly')
    ta = node_text(fa, 3000)
    if port == 'py':
        oka = 'column_names = {v: i for i, v in enumerate(column_names)}' in ta and 'zero_based_idx = column_names.get(column_name)' in ta and 'index=zero_based_idx' in ta
    else:
        oka = 'zero_based_idx = column_names.indexOf(column_name)' in ta and "'index': zero_based_idx" in ta
    rep.decide(oka, 'attribute variables', fa, 'a.name -> position of name in the header', 'a.name is no longer bound to the position of that name in the header')
    td = node_text(fdv, 3000)
    okd = ('for i in range(len(column_names))' in td or 'for i in range(0, len(column_names))' in td) and 'column_name = column_names[i]' in td and td.count('index=i') + td.count("'index': i") >= 2
    rep.decide(okd, 'dictionary variables', fdv, 'a["name"] -> position i of the name', 'a["name"] is no longer bound to the position of that name in the header')
    tm = node_text(fm, 2000)
    okm = ('for idx, column_name in enumerate(column_names)' in tm and 'index=idx' in tm) if port == 'py' else ('column_name = column_names[i]' in tm and "'index': i" in tm)
    rep.decide(okm, 'direct variables', fm, 'bare name -> its header position', 'direct-mode names are no longer bound to their header position')
    # regexes
    pats = {}
    for fd in (fa, fdv, fm):
        for c in ast.walk(fd):
            if isinstance(c, ast.Constant) and isinstance(c.value, str) and ('[_a-zA-Z]' in c.value or '[^_a-zA-Z0-9]' in c.value):
                pats.setdefault(fd.name, []).append(c.value)
            if isinstance(c, ast.JoinedStr):
                v = ''.join(x.value if isinstance(x, ast.Constant) else '{}' for x in c.values)
                if '[^_a-zA-Z0-9]' in v:
                    pats.setdefault(fd.name, []).append(v)
    a_ok = any(x.replace('\\\\', '\\') in ('(?:^|[^_a-zA-Z0-9]){}\\.([_a-zA-Z][_a-zA-Z0-9]*)',) for x in pats.get('parse_attribute_variables', []))
    rep.decide(a_ok, 'attribute regex', fa, 'a.<identifier> preceded by a non-identifier character', 'attribute-variable pattern changed: {}'.format(pats.get('parse_attribute_variables')))
    m_ok = any(x in ('^[_a-zA-Z][_a-zA-Z0-9]*$',) for x in pats.get('map_variables_directly', []))
    rep.decide(m_ok, 'direct-mode name check', fm, 'names must be identifiers (anchored)', 'direct-mode identifier check changed: {}'.format(pats.get('map_variables_directly')))


def rule_va_esc(cx, rep, port):
    """escape doubles backslashes first, covers quote/LF/CR; quote pair agreement; segment filter disjoint from escaped characters"""
    p = cx.port(port)
    mod = cx.engine_mod(port)
    fname = 'python_string_escape_column_name' if port == 'py' else 'js_string_escape_column_name'
    fd = p.func(mod, fname)
    reps = []
    for n in walk_no_nested(fd):
        if isinstance(n, ast.Call) and isinstance(n.func, ast.Attribute) and n.func.attr == 'replace' and len(n.args) == 2:
            a0 = n.args[0]
            src = a0.value if isinstance(a0, ast.Constant) else (a0.args[0].value if isinstance(a0, ast.Call) and dotted(a0.func) == '__regex__' else None)
            glob = True if isinstance(a0, ast.Constant) and port == 'py' else (isinstance(a0, ast.Call) and 'g' in a0.args[1].value)
            dst = n.args[1].value if isinstance(n.args[1], ast.Constant) else None
            reps.append((n.lineno, src, dst, glob, n))
    reps.sort(key=lambda r: r[0])
    if not reps:
        raise Undecided('escape function has no replace calls', fd)
    first = reps[0]
    bs = '\\' if port == 'py' else '\\\\'
    rep.decide(first[1] == bs and first[2] == '\\\\', 'backslash first', first[4], 'backslashes are doubled before any other escape', 'backslash doubling is not the first replacement: backslashes introduced by later escapes would be doubled again (or not at all)')
    srcs = {}
    for _, s, d, g, node in reps:
        srcs[s] = (d, g, node)
    need = {('\n' if port == 'py' else '\\n'): '\\n', ('\r' if port == 'py' else '\\r'): '\\r', '"': '\\"', "'": "\\'"}
    for s, d in need.items():
        if s not in srcs:
            rep.violated('escape of {!r}'.format(s), fd, 'the escape function does not rewrite {!r}: a column name containing it cannot be written as a string literal key'.format(s))
        else:
            rep.decide(srcs[s][0] == d and srcs[s][1], 'escape of {!r}'.format(s), srcs[s][2], '{!r} -> {!r} (all occurrences)'.format(s, d), '{!r} is rewritten to {!r} / not globally (must be {!r})'.format(s, srcs[s][0], d))
    # quote pair: "{}[\"{}\"]" with escape(name, '"'), etc.
    pd = p.func(mod, 'parse_dictionary_variables')
    pairs = []
    if port == 'py':
        for n in walk_no_nested(pd):
            if isinstance(n, ast.Assign) and isinstance(n.targets[0], ast.Subscript) and isinstance(n.targets[0].slice, ast.Call):
                fmt = n.targets[0].slice
                tmpl = fmt.func.value.value
                esc = [a for a in fmt.args if isinstance(a, ast.Call) and dotted(a.func) == fname]
                if esc:
                    pairs.append((tmpl, esc[0].args[1].value, n))
        for tmpl, q, node in pairs:
            ok = tmpl == '{}[' + q + '{}' + q + ']'
            rep.decide(ok, 'quote pair ' + q, node, 'key text uses the same quote character that was escaped', 'the variable key `{}` uses a different quote character than the one escaped ({})'.format(tmpl, q))
        rep.require_count('quote pairs', len(pairs), 2, pd)
    else:
        escs = [n for n in walk_no_nested(pd) if isinstance(n, ast.Assign) and isinstance(n.value, ast.Call) and dotted(n.value.func) == fname]
        keys = [n for n in walk_no_nested(pd) if isinstance(n, ast.Assign) and isinstance(n.targets[0], ast.Subscript) and isinstance(n.targets[0].slice, ast.JoinedStr)]
        okp = len(escs) == 3 and len(keys) == 3
        if okp:
            for e, k in zip(sorted(escs, key=lambda n: n.lineno), sorted(keys, key=lambda n: n.lineno)):
                q = e.value.args[1].value
                t = ''.join(x.value if isinstance(x, ast.Constant) else '{}' for x in k.targets[0].slice.values)
                if t != '{}[' + q + '{}' + q + ']':
                    okp = False
        rep.decide(okp, 'quote pairs', pd, 'each key text uses the quote character that was escaped', 'a variable key uses a different quote character than the one its name was escaped for')
    # VA-SEG: candidate filter class disjoint from escaped characters
    qf = p.func(mod, 'query_probably_has_dictionary_variable')
    from .pa import regex_sites
    cls = [st.pattern for st in regex_sites(cx, port) if st.func is qf and st.pattern is not None]
    if len(cls) != 1:
        rep.undecided('segment class', qf, 'segment character class not found')
    else:
        try:
            lang = R.Lang(cls[0], flavour='js' if port == 'js' else 'py')
            hit = [ch for ch in ['\\', '\n', '\r', '\t', '"', "'", '`'] if R.accepts(lang, ch)]
            rep.decide(not hit, 'segment class', qf, 'segments consist only of characters the escape function leaves unchanged', 'the candidate filter searches the query for segments containing {}: the escaped spelling in the query differs, so the variable is never bound'.format(hit))
        except R.Unsupported as e:
            rep.undecided('segment class', qf, str(e))
        t = node_text(qf, 1500).replace(' ', '')
        okq = ('ifquery_text.find(continuous_segment)==-1:returnFalse' in t) or ('ifquery_text.indexOf(continuous_segment)==-1:returnFalse' in t)
        rep.decide(okq and t.rstrip().endswith('returnTrue'), 'segment test', qf, 'candidate iff every segment occurs in the query', 'the candidate test is no longer "every segment occurs in the query"')


def rule_va_record(cx, rep, port='py'):
    """RBQLRecord a/b objects: storage per instance, missing key -> InternalBadKeyError"""
    p = cx.py
    c = p.cls('rbql_engine', 'RBQLRecord')
    t = node_text(c, 2000).replace(' ', '')
    ok = 'self.storage=dict()' in t and 'try:returnself.storage[key]exceptKeyError:raiseInternalBadKeyError(key)' in t and 'self.storage[key]=value' in t
    rep.decide(ok, 'RBQLRecord', c, 'per-instance storage; missing key -> InternalBadKeyError(key)', 'RBQLRecord no longer keeps per-instance storage / maps a missing key to InternalBadKeyError')
    gc = p.func('rbql_engine', 'generate_common_init_code')
    rep.decide("'{} = RBQLRecord()'.format(variable_prefix)" in node_text(gc, 2000), 'record objects', gc, 'a fresh RBQLRecord per input record', 'a/b are not re-created per record')


def rule_hd_emit(cx, rep, port):
    """the CSV writer emits the header line for every query that has one: either set_header() writes it at once, or - when it is
    kept for later - every normal path through finish() emits it or has tested that nothing is pending"""
    from .. import cfg as cfgmod
    p = cx.port(port)
    sh = p.func('rbql_csv', 'CSVWriter.set_header')
    fin = p.func('rbql_csv', 'CSVWriter.finish')
    hdr = sh.args.args[1].arg
    direct = [c for c in walk_no_nested(sh) if isinstance(c, ast.Call) and call_name(c) == 'self.write' and c.args and hdr in names_in(c.args[0])]
    if direct:
        g = cfgmod.CFG(sh)
        # executed whenever the header is present
        tests = [n for n in g.nodes if n.kind == 'test' and hdr in names_in(n.ast)]
        dn = [n for n in g.nodes if cfgmod.node_contains(n, lambda x: x is direct[0])]
        skip = g.exists_path(g.entry, lambda n: n is g.exit, avoid=lambda n: any(n is d for d in dn), edge_ok=lambda a, b, lab: not (any(a is t for t in tests) and lab == 'F') and lab not in ('exc', 'raise'))
        rep.decide(not skip, 'header emission', direct[0], 'set_header() writes a copy of the header at once whenever there is one', 'set_header() can return without writing a header that is present')
        return
    pend = [a for a in walk_no_nested(sh) if isinstance(a, ast.Assign) and (dotted(a.targets[0]) or '').startswith('self.') and hdr in names_in(a.value) and not (isinstance(a.value, ast.Call) and dotted(a.value.func) == 'len')]
    if not pend:
        rep.violated('header emission', sh, 'set_header() neither writes the header nor keeps it: the output has no header line')
        return
    attr = dotted(pend[0].targets[0])
    cls = p.cls('rbql_csv', 'CSVWriter')
    emitters = {m.name for m in cls.body if isinstance(m, ast.FunctionDef) and any(isinstance(x, ast.Attribute) and dotted(x) == attr for x in ast.walk(m)) and any(isinstance(c, ast.Call) and call_name(c) in ('self.write', 'self.stream.write') for c in ast.walk(m)) and m.name not in ('write', 'finish', 'set_header')}

    def emits(n):
        return cfgmod.node_contains(n, lambda x: isinstance(x, ast.Call) and ((call_name(x) or '').split('.')[-1] in emitters or (call_name(x) == 'self.write' and x.args and attr in (dotted(x.args[0]) or ''))))
    g = cfgmod.CFG(fin)
    tests = [n for n in g.nodes if n.kind == 'test' and any(isinstance(x, ast.Attribute) and dotted(x) == attr for x in ast.walk(n.ast))]
    dead = [n for n in g.nodes if n.kind == 'test' and 'broken_pipe' in node_text(n.ast)]

    def edge_ok(a, b, lab):
        if lab in ('exc', 'raise'):
            return False
        if any(a is t for t in tests) and lab == 'F':
            return False     # nothing pending on this branch
        if any(a is t for t in dead) and lab == 'T':
            return False     # the consumer is gone: nothing can be emitted
        return True
    path = g.find_path(g.entry, lambda n: n is g.exit, avoid=emits, edge_ok=edge_ok)
    if path:
        where = [n for n in path if n.ast is not None]
        rep.violated('header emission', where[-1].ast if where else fin, 'the header is kept in `{}` for later, and finish() has a normal path (through line {}) that neither emits it nor has tested that nothing is pending: a query with an empty result loses its header line on that path'.format(attr, where[-1].lineno if where else fin.lineno))
    else:
        rep.holds('header emission', pend[0], 'the deferred header `{}` is emitted, or tested to be absent, on every normal path through finish()'.format(attr))
