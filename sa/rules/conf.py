"""Rules over the configuration table of the shallow parser: WR-ORDER, PA-EXCL, PA-HDRCALL, HD-ARITY, PA-WITH, RS-PROTO(parser part)."""
import ast

from .. import conftable, roles
from ..core import Undecided, node_text
from ..model import call_name, dotted, names_in, walk_no_nested


def table(cx, port):
    return cx.cached(('conftable', port), lambda: conftable.build_table(cx.port(port), cx.engine_mod(port)))


def _ok_rows(rows):
    return [r for r in rows if r.error is None]


def _first(rows):
    """deduplicate rows by (wraps, relevant atoms) for reporting: returns representative rows"""
    seen = {}
    for r in rows:
        k = (tuple(r.wraps()), r.atoms.get('SELECT'), r.atoms.get('JOIN'))
        seen.setdefault(k, r)
    return list(seen.values())


def rule_pa_conf(cx, rep, port):
    w, rows, n = table(cx, port)
    ok = _ok_rows(rows)
    rep.require_count('keyword configurations', n, 1024, w.fd)
    rep.require_count('non-error paths', len(ok), 200, w.fd)
    rep.holds('configuration table', w.fd, '{} keyword configurations enumerated exhaustively, {} paths, {} end in a parse error, {} reach the end of the parser'.format(n, len(rows), len(rows) - len(ok), len(ok)))


def rule_wr_order(cx, rep, port):
    """data flows Sorted -> Uniq|UniqCount -> Top -> sink in every configuration; each wrapper present iff its keyword is"""
    w, rows, n = table(cx, port)
    p = cx.port(port)
    mod = cx.engine_mod(port)
    chain = {c.name: c for c in roles.chain_writers(p, mod)}

    def role_of(cname):
        c = chain.get(cname)
        if c is None:
            return None
        return roles.writer_kind(c)
    rank = {'top': 0, 'uniq': 1, 'ucnt': 1, 'sort': 2}
    bad = {}
    good = 0
    for r in _ok_rows(rows):
        ws = [role_of(x) for x in r.wraps()]
        a = r.atoms
        exp = set()
        if a['SELECT']:
            if a['TOP'] or port == 'js':
                exp.add('top')
            if a['SELECT.distinct_count']:
                exp.add('ucnt')
            elif a['SELECT.distinct']:
                exp.add('uniq')
        if a['ORDER BY']:
            exp.add('sort')
        msg = None
        if None in ws or 'agg' in ws:
            msg = 'an unexpected writer is installed by the parser: {}'.format(r.wraps())
        elif [rank[x] for x in ws] != sorted(rank[x] for x in ws) or len(set(ws)) != len(ws):
            msg = 'writers are wrapped in the order {} (innermost first): the stages must compose as sort, then dedup, then truncate'.format(r.wraps())
        elif set(ws) != exp:
            msg = 'configuration {} installs {} but needs {}'.format(r.name(), sorted(ws), sorted(exp))
        if msg:
            node = [e.node for e in r.events if e.kind == 'wrap']
            bad.setdefault(msg.split(':')[0] + '|' + '>'.join(r.wraps()), (r, msg, node[0] if node else w.fd))
        else:
            good += 1
    for k, (r, msg, node) in bad.items():
        rep.violated('chain {} in {}'.format('>'.join(r.wraps()) or '-', r.name()), node, msg)
    if good:
        rep.holds('writer chains', w.fd, '{} non-error paths: wrapping order Top, Uniq|UniqCount, Sorted (innermost first) and presence matches the keywords'.format(good))
    # SortedWriter must receive the DESC flag parsed from ORDER BY
    for r in _ok_rows(rows):
        for e in r.events:
            if e.kind == 'wrap' and role_of(e.what) == 'sort':
                args = ' '.join(e.extra['args'])
                if 'reverse' not in args:
                    rep.violated('SortedWriter reverse flag', e.node, 'the sorting writer is not given the DESC flag: `{}`'.format(node_text(e.node)))
                else:
                    rep.holds('SortedWriter reverse flag', e.node, args)
                return


def rule_pa_excl(cx, rep, port):
    w, rows, n = table(cx, port)

    def outcome(pred):
        sel = [r for r in rows if pred(r.atoms)]
        return sel, [r for r in sel if r.error is None]
    checks = [
        ('SELECT and UPDATE together', lambda a: a['SELECT'] and a['UPDATE']),
        ('neither SELECT nor UPDATE', lambda a: not a['SELECT'] and not a['UPDATE']),
        ('ORDER BY in UPDATE', lambda a: a['UPDATE'] and not a['SELECT'] and a['ORDER BY']),
        ('GROUP BY with ORDER BY', lambda a: a['GROUP BY'] and a['ORDER BY']),
        ('GROUP BY in UPDATE', lambda a: a['GROUP BY'] and a['UPDATE'] and not a['SELECT']),
        ('EXCEPT with JOIN', lambda a: a['SELECT'] and not a['UPDATE'] and a['EXCEPT'] and a['JOIN']),
    ]
    for name, pred in checks:
        sel, ok = outcome(pred)
        if not sel:
            rep.undecided(name, w.fd, 'no configuration matches')
            continue
        if ok:
            rep.violated(name, w.fd, '{} is accepted by the parser in configuration {} (must be a parsing error)'.format(name, ok[0].name()))
            continue
        wrong = [r for r in sel if r.error[0] not in ('RbqlParsingError', 'AssertionError')]
        if wrong:
            rep.violated(name, wrong[0].error[1], '{} is rejected with {} instead of the parsing error class'.format(name, wrong[0].error[0]))
        else:
            rep.holds(name, sel[0].error[1], 'rejected with a parsing error in all {} configurations'.format(len(sel)))
    # the legitimate combinations are not rejected unconditionally
    legit = [r for r in rows if r.atoms['SELECT'] and not r.atoms['UPDATE'] and not r.atoms['GROUP BY'] and not (r.atoms['EXCEPT'] and r.atoms['JOIN'])]
    ok = [r for r in legit if r.error is None]
    rep.decide(len(ok) >= len(legit) * 0.5 and ok, 'legitimate SELECT configurations', w.fd, '{} of {} paths through legitimate SELECT configurations reach the end of the parser'.format(len(ok), len(legit)), 'legitimate SELECT configurations are rejected unconditionally')


def rule_pa_hdrcall(cx, rep, port):
    """set_header exactly once, on the unwrapped sink, no raise reachable after it inside the parser"""
    w, rows, n = table(cx, port)
    bad = {}
    good = 0
    for r in _ok_rows(rows):
        depth = 0
        seen = 0
        after = []
        first_bad = None
        for e in r.events:
            if e.kind == 'wrap':
                depth += 1
            elif e.kind == 'sink' and e.what == 'set_header':
                seen += 1
                if depth != 0 and first_bad is None:
                    first_bad = ('wrapped', e.node, 'set_header is called after {} writer(s) were wrapped around the sink: the header goes to a chain writer, which has no set_header'.format(depth))
            elif e.kind == 'sink' and e.what in ('write', 'finish'):
                first_bad = first_bad or ('phase', e.node, 'the parser calls {}() on the writer (only set_header is allowed before the run)'.format(e.what))
            elif e.kind in ('may_raise', 'may_raise_call') and seen:
                after.append(e)
        if seen != 1 and first_bad is None:
            hdr = [e.node for e in r.events if e.kind == 'sink' and e.what == 'set_header']
            first_bad = ('count', hdr[-1] if hdr else w.fd, 'set_header is called {} times in configuration {}'.format(seen, r.name()))
        if after and first_bad is None:
            e = after[0]
            first_bad = ('raise-after', e.node, 'a parsing error ({}) can still be raised after the header was handed to the writer'.format(e.what if e.kind == 'may_raise' else '{} may raise {}'.format(e.what, e.extra)))
        if first_bad:
            bad.setdefault((first_bad[0], getattr(first_bad[1], 'lineno', 0)), (r, first_bad))
        else:
            good += 1
    for k, (r, fb) in bad.items():
        rep.violated('set_header {} at line {}'.format(fb[0], k[1]), fb[1], fb[2])
    if good:
        rep.holds('set_header protocol', w.fd, '{} non-error paths: exactly one set_header, on the unwrapped sink, nothing that can raise afterwards'.format(good))


ARITY_DELTA = {'ucnt': 1}


def rule_hd_arity(cx, rep, port):
    """the arity delta of every installed chain writer (UniqCount: +1) is applied to the header before set_header"""
    w, rows, n = table(cx, port)
    _learn_header_names(rows)
    p = cx.port(port)
    mod = cx.engine_mod(port)
    chain = {c.name: c for c in roles.chain_writers(p, mod)}

    def delta(cname):
        c = chain.get(cname)
        if c is None:
            return 0
        return 1 if roles.writer_kind(c) == 'ucnt' else 0
    bad = {}
    good = 0
    n_plus = 0
    for r in _ok_rows(rows):
        need = sum(delta(x) for x in r.wraps())
        if need:
            n_plus += 1
        # header adjustments: statements on the path, before set_header, guarded by the distinct_count atom, that prepend one element to the header / column infos
        adj = 0
        hdr_vars = set()
        for e in r.events:
            if e.kind == 'sink' and e.what == 'set_header':
                hdr_vars |= set(e.extra['args'])
        for e in r.events:
            if e.kind == 'sink' and e.what == 'set_header':
                break
            adj += _prepend_delta(e)
        if adj != need and _header_absent(r):
            good += 1  # no header is produced on this path (the guard `<header> is not None` is false): nothing to adjust
            continue
        if adj != need:
            hdr = [e.node for e in r.events if e.kind == 'sink' and e.what == 'set_header']
            key = 'need{}got{}'.format(need, adj)
            bad.setdefault(key, (r, hdr[0] if hdr else w.fd, need, adj))
        else:
            good += 1
    for k, (r, node, need, adj) in bad.items():
        rep.violated('header arity with {}'.format('>'.join(r.wraps()) or 'no wrappers'), node, 'in configuration {} the writer chain adds {} leading field(s) to every record but the header handed to set_header is adjusted by {}: header and records differ in width'.format(r.name(), need, adj))
    if good:
        rep.holds('header arity', w.fd, '{} non-error paths: header arity adjustments equal the arity delta of the installed writers ({} paths with DISTINCT COUNT)'.format(good, n_plus))
    rep.require_count('paths installing a +1 writer', n_plus + sum(1 for k in bad), 1, w.fd)


def _header_absent(r):
    for text, val in r.opaque.items():
        for h in ('output_header', 'input_header'):
            if (h + ' is not None') in text and val is False:
                return True
            if (h + ' is None') in text and val is True:
                return True
    return False


def _prepend_delta(e):
    """+1 for an event that prepends exactly one element to a header-like list before set_header."""
    if e.kind == 'mutate':
        c = e.extra
        target = e.what.rsplit('.', 1)[0]
        if not _headerish(target):
            return 0
        if e.what.endswith('.insert') and len(c.args) == 2 and isinstance(c.args[0], ast.Constant) and c.args[0].value == 0:
            return 1
        if e.what.endswith('.unshift') and len(c.args) == 1:
            return 1
        return 0
    if e.kind == 'def' and _headerish(e.what):
        v = e.extra
        # x = [elem] + x   /  x = [elem].concat(x)
        if isinstance(v, ast.BinOp) and isinstance(v.op, ast.Add) and isinstance(v.left, ast.List) and len(v.left.elts) == 1 and dotted(v.right) == e.what:
            return 1
        if isinstance(v, ast.Call) and isinstance(v.func, ast.Attribute) and v.func.attr == 'concat' and isinstance(v.func.value, ast.List) and len(v.func.value.elts) == 1 and v.args and dotted(v.args[0]) == e.what:
            return 1
    return 0


_HEADERISH = {'output_header', 'column_infos', 'query_column_infos', 'select_column_infos'}


def _headerish(name):
    return name in _HEADERISH


def _learn_header_names(rows):
    """names of the header list and of the column-info list, learnt by def-use from the events: the argument of set_header, and
    the last argument of the select_output_header call that defines it (so renaming these locals does not matter)"""
    for r in rows:
        hdr_args = [a for e in r.events if e.kind == 'sink' and e.what == 'set_header' for a in e.extra['args']]
        for h in hdr_args:
            if h.isidentifier():
                _HEADERISH.add(h)
        for e in r.events:
            if e.kind == 'def' and e.what in _HEADERISH and isinstance(e.extra, ast.Call) and (call_name(e.extra) or '') == 'select_output_header' and e.extra.args:
                last = dotted(e.extra.args[-1])
                if last:
                    _HEADERISH.add(last)


def rule_pa_with(cx, rep, port):
    """the WITH modifier reaches the input iterator and the join iterator before their variables map / header are requested"""
    w, rows, n = table(cx, port)
    bad = None
    good = 0
    checked_join = 0
    for r in _ok_rows(rows):
        if not r.atoms['WITH']:
            # without WITH no modifier call
            if any(e.kind == 'call' and e.what.endswith('handle_query_modifier') for e in r.events):
                bad = bad or (r, [e.node for e in r.events if e.kind == 'call' and e.what.endswith('handle_query_modifier')][0], 'handle_query_modifier is called although the query has no WITH clause')
            continue
        for recv in ['input_iterator'] + (['join_record_iterator'] if r.atoms['JOIN'] else []):
            seq = [e for e in r.events if e.kind == 'call' and e.what.startswith(recv + '.')]
            names = [e.what.split('.')[-1] for e in seq]
            if recv == 'join_record_iterator':
                checked_join += 1
            if 'handle_query_modifier' not in names:
                bad = bad or (r, (seq[0].node if seq else w.fd), 'WITH modifier is never handed to {}'.format(recv))
                continue
            i = names.index('handle_query_modifier')
            early = [x for x in names[:i] if x in ('get_variables_map', 'get_header')]
            if early:
                bad = bad or (r, seq[i].node, '{} is asked for {} before the WITH modifier is applied'.format(recv, early[0]))
                continue
            args = seq[i].extra['args']
            if not args or 'WITH' not in args[0]:
                bad = bad or (r, seq[i].node, 'handle_query_modifier receives `{}` instead of the WITH modifier'.format(args))
                continue
            good += 1
    if bad:
        rep.violated('WITH modifier', bad[1], bad[2] + ' (configuration {})'.format(bad[0].name()))
    else:
        rep.holds('WITH modifier', w.fd, '{} (path, iterator) pairs: modifier applied before get_variables_map/get_header ({} join iterators)'.format(good, checked_join))
    rep.require_count('WITH paths with join', checked_join, 1, w.fd)


def rule_rs_proto(cx, rep, port):
    """phase protocol: parser -> set_header only; compile_and_run and callees -> write only; query -> finish once after run, not in finally"""
    p = cx.port(port)
    mod = cx.engine_mod(port)
    q = p.func(mod, 'query')
    # order of calls in query()
    seq = []
    for st in q.body:
        for c in walk_no_nested(st):
            if isinstance(c, ast.Call):
                nm = call_name(c) or ''
                if nm in ('shallow_parse_input_query', 'compile_and_run') or nm.endswith('writer.finish') or nm.endswith('.get_warnings'):
                    seq.append((nm, c, st))
    names = [s[0] for s in seq]
    fins = [s for s in seq if s[0].endswith('writer.finish')]
    in_finally = [s for s in fins if any(isinstance(a, ast.Try) and s[2] in a.finalbody for a in ast.walk(q))]
    try:
        i_parse, i_run = names.index('shallow_parse_input_query'), names.index('compile_and_run')
    except ValueError:
        raise Undecided('query() does not call shallow_parse_input_query and compile_and_run', q)
    if len(fins) != 1:
        rep.violated('query finish count', fins[1][1] if len(fins) > 1 else q, 'query() calls writer.finish() {} times'.format(len(fins)))
    elif in_finally or any(isinstance(a, ast.Try) for a in ast.walk(q)) and _in_handler_or_finally(fins[0][2], q):
        rep.violated('query finish placement', fins[0][1], 'finish() is called from a finally/except block: it would also run after a failed query')
    elif not (i_parse < i_run < names.index(fins[0][0])):
        rep.violated('query phase order', fins[0][1], 'query() phases are not parse -> run -> finish: {}'.format(names))
    elif dotted(fins[0][1].func.value) != 'query_context.writer':
        rep.violated('query finish receiver', fins[0][1], 'finish() is called on `{}` instead of the head of the writer chain: buffered writers never flush'.format(dotted(fins[0][1].func.value)))
    else:
        warn_before = [nm for nm in names[:names.index(fins[0][0])] if nm.endswith('.get_warnings')]
        rep.decide(not warn_before, 'query phases', q, 'parse -> run -> finish (once, on the chain head, outside finally) -> warnings', 'warnings are collected before finish(): warnings raised while flushing are lost')
    # compile_and_run and everything it reaches never calls set_header/finish
    reach = _reachable(p, mod, 'compile_and_run')
    offenders = []
    for fname in reach:
        fd = p.func(mod, fname, required=False)
        if fd is None:
            continue
        for c in ast.walk(fd):
            if isinstance(c, ast.Call) and isinstance(c.func, ast.Attribute) and c.func.attr in ('set_header', 'finish') and 'writer' in (dotted(c.func.value) or ''):
                offenders.append((fname, c))
    rep.decide(not offenders, 'run phase', p.func(mod, 'compile_and_run'), 'compile_and_run and its {} reachable functions only write()'.format(len(reach)), 'run phase calls {} in {}'.format(node_text(offenders[0][1]) if offenders else '', offenders[0][0] if offenders else ''))
    # parser: only set_header on the sink
    w, rows, n = table(cx, port)
    other = [e for r in rows for e in r.events if e.kind == 'sink' and e.what != 'set_header']
    rep.decide(not other, 'parse phase', w.fd, 'the parser calls nothing but set_header on the writer', 'the parser calls {}() on the writer'.format(other[0].what if other else ''))


def _in_handler_or_finally(stmt, fd):
    for t in ast.walk(fd):
        if isinstance(t, ast.Try):
            for h in t.handlers:
                if any(stmt is s or stmt in ast.walk(s) for s in h.body):
                    return True
            if any(stmt is s or stmt in ast.walk(s) for s in t.finalbody):
                return True
    return False


def _reachable(p, mod, root):
    seen = set()
    work = [root]
    while work:
        f = work.pop()
        if f in seen:
            continue
        fd = p.func(mod, f, required=False)
        if fd is None:
            continue
        seen.add(f)
        for c in ast.walk(fd):
            if isinstance(c, ast.Call):
                nm = call_name(c)
                if nm and p.func(mod, nm, required=False) is not None:
                    work.append(nm)
                # nested closures are walked with ast.walk already
    return seen


def rule_hd_countpos(cx, rep, port):
    """outside EXCEPT the count column of DISTINCT COUNT must be accounted for *before* names are generated (so that colK numbers
    count it); prepending a name to the finished header is only right where every other name is a source name (EXCEPT)"""
    w, rows, n = table(cx, port)
    _learn_header_names(rows)
    bad = None
    good = 0
    for r in _ok_rows(rows):
        a = r.atoms
        if not (a['SELECT'] and a['SELECT.distinct_count']) or a['EXCEPT'] or _header_absent(r):
            continue
        seq = []
        for e in r.events:
            if e.kind == 'sink' and e.what == 'set_header':
                break
            if _prepend_delta(e):
                seq.append(('adjust', e))
            if e.kind == 'may_raise_call' and e.what == 'select_output_header' or (e.kind == 'def' and e.what == 'output_header' and 'select_output_header' in node_text(e.extra, 200)):
                seq.append(('naming', e))
        kinds = [k for k, _ in seq]
        if 'naming' not in kinds:
            continue
        if 'adjust' in kinds and kinds.index('adjust') > kinds.index('naming'):
            bad = bad or (r, [e for k, e in seq if k == 'adjust'][0])
        elif 'adjust' in kinds:
            good += 1
    if bad:
        rep.violated('count column position', bad[1].node, 'in configuration {} the DISTINCT COUNT column is added to the header after the colK names were generated: unnamed columns are numbered by their position in the select list instead of their position in the output (col2 where the record has it third)'.format(bad[0].name()))
    elif good:
        rep.holds('count column position', w.fd, '{} DISTINCT COUNT paths: the count column is accounted for before the names are generated'.format(good))
    else:
        rep.undecided('count column position', w.fd, 'no DISTINCT COUNT path with a header adjustment found')
