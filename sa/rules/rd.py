"""RD rules: stream readers (C12 python, C20 javascript)."""
import ast

from .. import cfg as cfgmod
from ..core import Undecided, node_text
from ..idioms import increment_of, is_false, is_name, is_true, negated
from ..model import call_name, const_value as const_value_, dotted, enclosing_func, is_none, names_in, walk_no_nested
from ..snippet import alpha_equal, contains_stmts, contains_expr

NORMAL = lambda a, b, lab: lab not in ('exc', 'raise', 'assert')  # noqa: E731


def _it(cx, port):
    p = cx.port(port)
    c = p.cls('rbql_csv', 'CSVRecordIterator')
    return p, c, {m.name: m for m in c.body if isinstance(m, ast.FunctionDef)}


def _py_rows_model(cx):
    """get_row_simple of the Python reader evaluated on every text of at most N characters over {letter, LF, CR} delivered by a stream
    that hands out at most chunk_size characters per read (chunk sizes 1..3): the rows returned until the first None must be the
    lines of the text (LF, CR and CRLF each end a line; a non-empty unterminated tail is the last row), NL must count them, and a
    further call must return None again.  (ok, detail, scenarios) - or None when the reader is outside the abstract interpreter.
    The result is computed once per run."""
    return _py_rows_model_kind(cx, 'simple')


def _rfc_records(pieces):
    """the records of RFC-4180 mode: a line with an odd number of double quotes opens a record that extends to the next such line (or the end)"""
    out, i = [], 0
    while i < len(pieces):
        rec = [pieces[i]]
        if pieces[i].count('"') % 2 == 1:
            i += 1
            while i < len(pieces):
                rec.append(pieces[i])
                if pieces[i].count('"') % 2 == 1:
                    break
                i += 1
        i += 1
        out.append('\n'.join(rec))
    return out


def _py_rows_model_kind(cx, kind):
    memo = '_py_rows_result_' + kind
    if hasattr(cx, memo):
        return getattr(cx, memo)
    import itertools
    import re as _re
    from .. import absexec as AX
    p, c, ms = _it(cx, 'py')
    res = None
    grs = ms.get({'simple': 'get_row_simple', 'rfc': 'get_row_rfc', 'record': 'get_record'}[kind])
    maxlen = (5 if getattr(cx, 'tier', 'quick') == 'thorough' else 4) if kind == 'simple' else (5 if getattr(cx, 'tier', 'quick') == 'thorough' else 3)
    alphabet = {'simple': 'a\n\r', 'rfc': 'a"\n\r', 'record': 'a#\n'}[kind]
    if kind == 'record':
        maxlen = 4 if getattr(cx, 'tier', 'quick') == 'thorough' else 3
    n = 0
    bad = None
    import sys as _sys
    old_limit = _sys.getrecursionlimit()
    _sys.setrecursionlimit(max(old_limit, 15000))      # the interpreter's own frames: ~15 per analysed call level
    try:
        if grs is None:
            raise Undecided('get_row_simple not found', c)
        # every short text; and lines longer than every integer constant the reader's code mentions (thresholds of buffering strategies)
        consts = [x.value for m_ in ms.values() for x in ast.walk(m_) if isinstance(x, ast.Constant) and isinstance(x.value, int) and not isinstance(x.value, bool) and 3 < x.value <= 1500]
        consts += [v for v in p.module_consts('rbql_csv').values() if isinstance(v, int) and not isinstance(v, bool) and 3 < v <= 1500]
        long_len = max((max(consts) if consts else 16) + 3, 150)
        texts = [''.join(chars) for ln in range(0, maxlen + 1) for chars in itertools.product(alphabet, repeat=ln)]
        if kind == 'simple':
            texts += ['a' * long_len + '\nb', 'a' * (2 * long_len + 1) + '\r\n' + 'b' * long_len]
        elif kind == 'record':
            texts = [t_ for t_ in texts if '#' in t_] + ['a,b\n#c1\n#c2\n#c3\nx,y\nz', '#\n#\na\n#', '#c\r\n#d\r\na,a\r\n']
        else:
            extras = ['"a\nb\nc\nd"\ne', 'a"\r\n\r\n"b\r\nc', '""\n"\n\n', '"\n"\r\na', '"\r\n"\r\n"\r\n"\r\n', '"\r"\r\n\ra']
            texts = [t_ for t_ in texts if '"' in t_] + extras
        for text in texts:
            if True:
                pieces = _re.split('\r\n|\r|\n', text)
                if pieces[-1] == '':
                    pieces.pop()
                n_lines = len(pieces)
                if kind == 'rfc':
                    pieces = _rfc_records(pieces)
                if kind == 'record':
                    pieces = [ln_.split(',') for ln_ in pieces if not ln_.startswith('#')]
                for chunk_size in ((1, 2, 3) if len(text) <= maxlen else ((1, 2) if kind == 'simple' else ((1, 4, len(text)) if kind == 'record' else tuple(range(1, len(text) + 1))))):
                    selfv, stream = AX.Abs('Self'), AX.Abs('Stream')
                    pos = [0]
                    init = {'buffer': '', 'exhausted': False, 'stream': stream, 'chunk_size': chunk_size, 'NL': 0, 'utf8_bom_removed': False, 'encoding': 'utf-8', 'detected_line_separator': '\n', 'comment_prefix': None}
                    if kind == 'record':
                        init.update({'comment_prefix': '#', 'first_record_should_be_emitted': False, 'polymorphic_get_row': ('method', selfv, 'get_row_simple'), 'delim': ',', 'policy': 'simple', 'NR': 0,
                                     'fields_info': {}, 'first_defective_line': None, 'has_header': False, 'first_record': None, 'table_name': 'input'})

                    def on_attr(ex, node, obj, attr, init=init):
                        if obj is selfv and attr in init:
                            return init[attr]
                        return AX.NOT_HANDLED

                    def on_call(ex, node, fname, recv, args, stream=stream, pos=pos, text=text):
                        short = node.func.attr if isinstance(node.func, ast.Attribute) else fname.split('.')[-1]
                        if recv is stream and short == 'read':
                            k = args[0] if args and isinstance(args[0], int) and args[0] > 0 else len(text)
                            out = text[pos[0]:pos[0] + k]
                            pos[0] += len(out)
                            return out
                        if short == 'remove_utf8_bom' and args:
                            return args[0]
                        return AX.NOT_HANDLED
                    ex = AX.Explorer(p, 'rbql_csv', on_call=on_call, on_attr=on_attr, max_choices=1, max_steps=400000)
                    ex.cls = 'CSVRecordIterator'
                    ex.max_depth = 120
                    ex._script, ex._pos, ex.steps, ex.depth = [], 0, 0, 0
                    ex.run = AX.Run()
                    if kind == 'record':
                        ex.run.state[(selfv.uid, 'polymorphic_get_row')] = ('method', selfv, 'get_row_simple')
                    rows = []
                    try:
                        for _ in range(len(pieces) + 2):
                            ex.steps, ex.depth = 0, 0
                            rows.append(ex.call_fd(grs, [selfv]))
                    except AX.DepthBound:
                        if len(text) <= maxlen:
                            raise
                        # the short inputs need a handful of nested calls; here the nesting grew past 120 on a line that takes ~150 reads
                        bad = 'input of a {}-character line read {} character(s) at a time: the reader nests one call per read (more than 120 calls deep here), so a line that takes more reads than the interpreter\'s recursion limit (1000 by default) fails with RecursionError instead of being returned'.format(len(pieces[0]), chunk_size)
                        break
                    n += 1
                    desc = 'input {} read {} character(s) at a time'.format(repr(text) if len(text) <= 12 else 'of a {}-character line, a line break and more text'.format(len(pieces[0])), chunk_size)
                    got = rows[:len(pieces)]
                    if got != pieces or rows[len(pieces):] != [None, None]:
                        first_none = rows.index(None) if None in rows else len(rows)
                        short_ = lambda rs: [r_ if not isinstance(r_, str) or len(r_) <= 12 else '<{} characters>'.format(len(r_)) for r_ in rs]   # noqa: E731
                        bad = '{}: the rows are {!r} instead of {!r}{}'.format(desc, short_(rows[:first_none]), short_(pieces), '' if rows[len(pieces):] == [None, None] or got != pieces else ' (and the end of input is not reported as None on every further call)')
                        break
                    nl = ex.run.state.get((selfv.uid, 'NL'), 0)
                    if nl != n_lines:
                        bad = '{}: the input has {} lines but the line counter NL is {}'.format(desc, n_lines, nl)
                        break
                if bad:
                    break
            if bad:
                break
        res = (bad is None, bad or {'simple': 'rows = lines of the input for every text of at most {} characters over letter/LF/CR and chunk sizes 1-3', 'rfc': 'records = lines grouped by quote parity for every text of at most {} characters over letter/quote/LF/CR and chunk sizes 1-3', 'record': 'records = the lines that do not start with the comment prefix, NL = all lines, for every text of at most {} characters over letter/#/LF'}[kind].format(maxlen), n)
    except (Undecided, AX.Cut, AX._NeedChoice, AX.Raised, KeyError, IndexError, TypeError, AttributeError, ValueError, RecursionError) as e_:
        import os
        if os.environ.get('RBQL_VERIF_DEBUG'):
            print('python row model gave up:', type(e_).__name__, str(e_)[:200])
        res = None
    finally:
        _sys.setrecursionlimit(old_limit)
    setattr(cx, memo, res)
    return res


def _self_stores(fd, attr):
    out = []
    for n in walk_no_nested(fd):
        if isinstance(n, ast.Assign) and any(dotted(t) == 'self.' + attr for t in n.targets):
            out.append(n)
        if isinstance(n, ast.AugAssign) and dotted(n.target) == 'self.' + attr:
            out.append(n)
    return out


# ------------------------------------------------------------------------------------------------ python
def rule_rd_mustflow(cx, rep, port='py'):
    mr = _py_rows_model(cx)
    if mr is not None:
        p_, c_, ms_ = _it(cx, 'py')
        rep.decide(mr[0], 'text reaches the rows', ms_['get_row_simple'], 'every character read from the stream reaches a returned row, in order' + ' ({} scenarios: {})'.format(mr[2], mr[1]) if mr[0] else '', 'text read from the stream does not reach the returned rows unchanged: ' + (mr[1] if not mr[0] else ''))
        return
    with rep.as_fallback('the Python reader is outside the abstract interpreter'):
        _rule_rd_mustflow_shape(cx, rep, port)


def _rule_rd_mustflow_shape(cx, rep, port='py'):
    p, c, ms = _it(cx, 'py')
    reads = []
    for m in ms.values():
        for n in walk_no_nested(m):
            if isinstance(n, ast.Call) and call_name(n) == 'self.stream.read':
                reads.append((m, n))
    rep.require_count('stream.read sites', len(reads), 2, c)
    for m, call in reads:
        st = call
        while not isinstance(st, ast.stmt):
            st = st.parent
        key = '{}: {}'.format(m.name, node_text(st))
        if not (isinstance(st, ast.Assign) and st.value is call and isinstance(st.targets[0], ast.Name)):
            rep.violated(key, st, 'the text returned by stream.read() is not kept in a variable: it cannot reach the buffer')
            continue
        var = st.targets[0].id
        is_lookahead = call.args and isinstance(call.args[0], ast.Constant) and call.args[0].value == 1
        if is_lookahead:
            _check_lookahead(rep, m, st, var, key)
        else:
            _check_chunk_flow(rep, m, st, var, key)
    # every assignment to the carry-over buffer is an enumerated idiom
    n_stores = 0
    for m in ms.values():
        for s in _self_stores(m, 'buffer'):
            n_stores += 1
            key = '{}: {}'.format(m.name, node_text(s))
            kind = _buffer_store_kind(m, s)
            if kind is None:
                rep.violated(key, s, 'the carry-over buffer is overwritten by `{}`: text that was read but not yet delivered is lost (accepted: append; remainder of the line split; emptying after its content was returned; initialisation)'.format(node_text(s)))
            else:
                rep.holds(key, s, kind)
    rep.require_count('buffer stores', n_stores, 4, c)


def _check_chunk_flow(rep, m, st, var, key):
    g = cfgmod.CFG(m)
    node = [n for n in g.nodes if n.ast is st]
    if not node:
        rep.undecided(key, st, 'read statement not in CFG')
        return
    node = node[0]
    appends = [n for n in g.nodes if n.kind == 'stmt' and isinstance(n.ast, ast.Expr) and isinstance(n.ast.value, ast.Call) and isinstance(n.ast.value.func, ast.Attribute) and n.ast.value.func.attr == 'append' and n.ast.value.args and is_name(n.ast.value.args[0], var)]
    direct = [n for n in g.nodes if n.kind == 'stmt' and isinstance(n.ast, ast.AugAssign) and dotted(n.ast.target) == 'self.buffer' and var in names_in(n.ast.value)]
    sinks = appends + direct
    if not sinks:
        rep.violated(key, st, 'the chunk read from the stream is never appended to the buffer')
        return
    # every path from the read to the function exit / back to the read passes a sink, unless the chunk was tested empty
    empties = [n for n in g.nodes if n.kind == 'test' and _tests_empty(n.ast, var) is not None]

    def empty_edge(a, b, lab):
        if a in empties:
            pol = _tests_empty(a.ast, var)  # True: test true means empty
            if (lab == 'T') == pol:
                return False
        return lab not in ('exc', 'raise', 'assert')
    escape = g.find_path(node, lambda n: n is g.exit or n is node, avoid=lambda n: n in sinks, edge_ok=empty_edge)
    if escape is not None:
        rep.violated(key, st, 'a non-empty chunk can be dropped: a path from the read reaches {} without appending it (via line {})'.format('the next read' if escape[-1] is node else 'the end of the function', escape[1].lineno if len(escape) > 1 else '?'))
        return
    # the collected chunks must be appended (+=) to the buffer, in order
    if appends:
        coll = dotted(appends[0].ast.value.func.value)
        joins = [n for n in walk_no_nested(m) if isinstance(n, ast.AugAssign) and dotted(n.target) == 'self.buffer' and coll in names_in(n.value)]
        over = [n for n in walk_no_nested(m) if isinstance(n, ast.Assign) and any(dotted(t) == 'self.buffer' for t in n.targets) and coll in names_in(n.value)]
        if over:
            rep.violated(key, over[0], 'the buffer is overwritten with the newly read chunks: undelivered text from earlier reads is lost')
            return
        if len(joins) != 1:
            rep.violated(key, st, 'collected chunks are not appended to the buffer exactly once')
            return
        j = joins[0].value
        ok_join = isinstance(j, ast.Call) and isinstance(j.func, ast.Attribute) and j.func.attr == 'join' and isinstance(j.func.value, ast.Constant) and j.func.value.value == '' and j.args and is_name(j.args[0], coll)
        if not ok_join:
            rep.violated(key, joins[0], 'chunks are combined by `{}` instead of plain concatenation in read order'.format(node_text(j)))
            return
        gj = [n for n in g.nodes if n.ast is joins[0]]
        rng = g.count_range(lambda n: n in gj, src=node, edge_ok=NORMAL)
        if rng is None or rng[0] < 1:
            early = [r for r in walk_no_nested(m) if isinstance(r, ast.Return) and r.pos > st.pos]
            rep.violated(key, joins[0], 'some path leaves the function after reading without appending the collected chunks to the buffer')
            return
    rep.holds(key, st, 'every non-empty chunk is collected and appended to the buffer on every path')


def _tests_empty(e, var):
    """`not chunk` / `chunk == ''` / `len(chunk) == 0` -> True (test true means empty); `chunk` / `len(chunk)` -> False; else None"""
    if negated(e) is not None and is_name(negated(e), var):
        return True
    if is_name(e, var):
        return False
    if isinstance(e, ast.Compare) and len(e.ops) == 1:
        l, c = e.left, e.comparators[0]
        if is_name(l, var) and isinstance(c, ast.Constant) and c.value == '':
            return isinstance(e.ops[0], ast.Eq)
        if isinstance(l, ast.Call) and dotted(l.func) == 'len' and l.args and is_name(l.args[0], var) and isinstance(c, ast.Constant) and c.value == 0:
            return isinstance(e.ops[0], ast.Eq)
    return None


def _check_lookahead(rep, m, st, var, key):
    """one_more = read(1); if one_more == '\\n': separator = CRLF else: <rest> = one_more  (rest is what becomes the buffer)"""
    ifs = [n for n in walk_no_nested(m) if isinstance(n, ast.If) and isinstance(n.test, ast.Compare) and is_name(n.test.left, var) and isinstance(n.test.comparators[0], ast.Constant)]
    if len(ifs) != 1:
        rep.violated(key, st, 'the look-ahead character is not compared with LF: it is either always dropped or always kept')
        return
    iff = ifs[0]
    op = iff.test.ops[0]
    lf = iff.test.comparators[0].value
    if lf != '\n' or not isinstance(op, (ast.Eq, ast.NotEq)):
        rep.violated(key, iff, 'the look-ahead character is compared with {!r} instead of LF'.format(lf))
        return
    eq_arm, ne_arm = (iff.body, iff.orelse) if isinstance(op, ast.Eq) else (iff.orelse, iff.body)
    keeps = [s for s in ne_arm if isinstance(s, ast.Assign) and is_name(s.value, var)]
    if not keeps:
        rep.violated(key, iff, 'a look-ahead character that is not LF is dropped (it must become the start of the remaining buffer)')
        return
    rest_var = dotted(keeps[0].targets[0])
    stores = [s for s in _self_stores(m, 'buffer') if isinstance(s, ast.Assign) and dotted(s.value) == rest_var and s.pos > iff.pos]
    if rest_var != 'self.buffer' and not stores:
        rep.violated(key, keeps[0], 'the kept look-ahead character never reaches the buffer')
        return
    merges = [s for s in eq_arm if isinstance(s, ast.Assign) and isinstance(s.value, ast.Constant) and s.value.value == '\r\n']
    leaks = [s for s in eq_arm if isinstance(s, ast.Assign) and is_name(s.value, var)]
    if leaks:
        rep.violated(key, leaks[0], 'the LF of a CRLF pair split across two reads is kept as text: the pair is read as two line breaks')
        return
    rep.holds(key, st, 'look-ahead character: LF is merged into CRLF' + ('' if merges else ' (separator not recorded)') + ', anything else becomes the start of the buffer')


def _buffer_store_kind(m, s):
    if isinstance(s, ast.AugAssign) and isinstance(s.op, ast.Add):
        return 'append'
    if isinstance(s, ast.Assign):
        v = s.value
        if m.name == '__init__' and isinstance(v, ast.Constant) and v.value == '':
            return 'initialisation'
        if isinstance(v, ast.Constant) and v.value == '':
            # emptying: the previous statement must move the buffer into the returned row
            blk = _block_of(s)
            i = blk.index(s)
            if i > 0 and isinstance(blk[i - 1], ast.Assign) and dotted(blk[i - 1].value) == 'self.buffer':
                moved = {dotted(blk[i - 1].targets[0])}
                grew = True
                while grew:      # copies of the moved text (x = moved) carry it on
                    grew = False
                    for a_ in walk_no_nested(m):
                        if isinstance(a_, ast.Assign) and isinstance(a_.value, ast.Name) and a_.value.id in moved:
                            for t_ in a_.targets:
                                if isinstance(t_, ast.Name) and t_.id not in moved:
                                    moved.add(t_.id)
                                    grew = True
                rets = [r for r in walk_no_nested(m) if isinstance(r, ast.Return) and r.value is not None and moved & names_in(r.value)]
                if rets:
                    return 'emptied after its content was moved to the returned row'
            return None
        if isinstance(v, ast.Name):
            # remainder of the three-way partition of the buffer
            for n in walk_no_nested(m):
                if isinstance(n, ast.Assign) and isinstance(n.targets[0], ast.Tuple) and len(n.targets[0].elts) == 3 and isinstance(n.value, ast.Call) and (call_name(n.value) or '').endswith('extract_line_from_data') and n.value.args and dotted(n.value.args[0]) == 'self.buffer':
                    names = [dotted(e) for e in n.targets[0].elts]
                    if names[2] == v.id:
                        rets = [r for r in walk_no_nested(m) if isinstance(r, ast.Return) and r.value is not None and is_name(r.value, names[0])]
                        if rets:
                            return 'remainder of the (line, separator, rest) partition whose head is returned'
        if isinstance(v, ast.BinOp) and isinstance(v.op, ast.Add) and dotted(v.left) == 'self.buffer':
            return 'append'
    return None


def _block_of(stmt):
    par = stmt.parent
    for fld in ('body', 'orelse', 'finalbody'):
        b = getattr(par, fld, None)
        if isinstance(b, list) and stmt in b:
            return b
    return [stmt]


def rule_rd_partition(cx, rep, port='py'):
    mr = _py_rows_model(cx)
    if mr is not None:
        p_, c_, ms_ = _it(cx, 'py')
        rep.decide(mr[0], 'partition', ms_['get_row_simple'], 'each row is the text before the first line separator of what is buffered; the rest stays buffered' + ' ({} scenarios: {})'.format(mr[2], mr[1]) if mr[0] else '', 'the buffered text is not cut at the first line separator: ' + (mr[1] if not mr[0] else ''))
        return
    with rep.as_fallback('the Python reader is outside the abstract interpreter'):
        _rule_rd_partition_shape(cx, rep, port)


def _rule_rd_partition_shape(cx, rep, port='py'):
    """extract_line_from_data: (text before the first separator, the separator, text after it); None when there is none"""
    p = cx.py
    fd = p.func('csv_utils', 'extract_line_from_data')
    data = fd.args.args[0].arg
    searches = [n for n in walk_no_nested(fd) if isinstance(n, ast.Call) and isinstance(n.func, ast.Attribute) and n.func.attr in ('search', 'match', 'finditer', 'findall') and dotted(n.func.value) == 'newline_rgx']
    if len(searches) != 1 or searches[0].func.attr != 'search':
        rep.violated('separator search', fd, 'the first line separator is not located with newline_rgx.search (`{}`)'.format(node_text(searches[0]) if searches else 'none'))
        return
    # decided on the path summaries (locals, destructuring of span() and start()/end() are all substituted away)
    from .. import pathsem
    ps = pathsem.paths(fd)
    if ps is None:
        rep.undecided('partition', fd, 'extract_line_from_data is not summarisable as paths')
        return
    srch = searches[0]

    def is_match(e):
        return isinstance(e, ast.Call) and ast.dump(e) == ast.dump(srch)

    def bound(e):
        """'start' / 'end' of the match, None otherwise"""
        if isinstance(e, ast.Call) and isinstance(e.func, ast.Attribute) and e.func.attr in ('start', 'end') and is_match(e.func.value) and (not e.args or const_value_(e.args[0]) == 0):
            return e.func.attr
        if isinstance(e, ast.Subscript) and isinstance(e.value, ast.Call) and isinstance(e.value.func, ast.Attribute) and e.value.func.attr == 'span' and is_match(e.value.func.value) and const_value_(e.slice) in (0, 1):
            return 'start' if const_value_(e.slice) == 0 else 'end'
        return None

    def part(e):
        """which part of `data` an expression denotes: 'before' / 'sep' / 'after'"""
        if isinstance(e, ast.Subscript) and is_name(e.value, data) and isinstance(e.slice, ast.Slice) and e.slice.step is None:
            lo, hi = e.slice.lower, e.slice.upper
            lo_b = None if lo is None else bound(lo)
            hi_b = None if hi is None else bound(hi)
            if (lo is None or const_value_(lo) == 0) and hi_b == 'start':
                return 'before'
            if lo_b == 'end' and hi is None:
                return 'after'
            if lo_b == 'start' and hi_b == 'end':
                return 'sep'
            return 'other'
        if isinstance(e, ast.Call) and isinstance(e.func, ast.Attribute) and e.func.attr == 'group' and is_match(e.func.value) and (not e.args or const_value_(e.args[0]) == 0):
            return 'sep'
        if isinstance(e, ast.Subscript) and is_match(e.value) and const_value_(e.slice) == 0:
            return 'sep'
        return None
    n_none = n_full = 0
    for q in ps:
        if q.kind != 'return' or q.value is None:
            continue
        found = None
        for atom, pol in pathsem.atoms(q.conds):
            if isinstance(atom, ast.Compare) and len(atom.ops) == 1 and is_match(atom.left) and is_none(atom.comparators[0]):
                found = (isinstance(atom.ops[0], (ast.IsNot, ast.NotEq))) == pol
            elif is_match(atom):
                found = pol
        elts = list(q.value.elts) if isinstance(q.value, (ast.Tuple, ast.List)) else None
        if found is None or elts is None or len(elts) != 3:
            rep.undecided('partition', q.node, 'a path of extract_line_from_data is not classified by "a separator was found" / does not return a triple')
            return
        if not found:
            n_none += 1
            ok0 = is_none(elts[0]) and is_none(elts[1]) and is_name(elts[2], data)
            if not ok0:
                rep.violated('no separator', q.node, 'without a separator the function does not return (None, None, data): buffered text is lost')
                return
        else:
            n_full += 1
            kinds = [part(e_) for e_ in elts]
            if None in kinds:
                rep.undecided('partition', q.node, 'component `{}` of the returned triple not recognised'.format(node_text(elts[kinds.index(None)], 50)))
                return
            if kinds != ['before', 'sep', 'after']:
                rep.violated('partition', q.node, 'the (before, separator, after) partition is not data[:match_start], match, data[match_end:] (got {}): characters are lost or duplicated'.format(kinds))
                return
    if n_none and n_full:
        rep.holds('no separator', fd, 'without a separator the data is returned unconsumed')
        rep.holds('partition', fd, 'returns (data[:start], separator, data[end:])')
    else:
        rep.undecided('partition', fd, 'paths with and without a separator not both found')


def rule_rd_crla(cx, rep, port='py'):
    mr = _py_rows_model(cx)
    if mr is not None:
        p_, c_, ms_ = _it(cx, 'py')
        rep.decide(mr[0], 'CR look-ahead', ms_['get_row_simple'], 'a CRLF pair split across two reads is one line break; a lone CR is one too' + ' ({} scenarios: {})'.format(mr[2], mr[1]) if mr[0] else '', 'line breaks at a read boundary are not recognised correctly: ' + (mr[1] if not mr[0] else ''))
        return
    with rep.as_fallback('the Python reader is outside the abstract interpreter'):
        _rule_rd_crla_shape(cx, rep, port)


def _rule_rd_crla_shape(cx, rep, port='py'):
    p, c, ms = _it(cx, 'py')
    m = ms['_get_row_from_buffer']
    reads = [n for n in walk_no_nested(m) if isinstance(n, ast.Call) and call_name(n) == 'self.stream.read']
    if not reads:
        rep.violated('CR look-ahead', m, 'no look-ahead read after a CR at the very end of the buffered data: a CRLF pair split across two reads is read as two line breaks')
        return
    iff = reads[0]
    while iff is not None and not isinstance(iff, ast.If):
        iff = getattr(iff, 'parent', None)
    if iff is None:
        rep.violated('CR look-ahead', reads[0], 'the look-ahead read is unconditional')
        return
    t = iff.test
    conj = t.values if isinstance(t, ast.BoolOp) and isinstance(t.op, ast.And) else [t]
    has_cr = any(isinstance(x, ast.Compare) and isinstance(x.ops[0], ast.Eq) and isinstance(x.comparators[0], ast.Constant) and x.comparators[0].value == '\r' for x in conj)
    has_empty = any((isinstance(x, ast.Compare) and isinstance(x.ops[0], ast.Eq) and isinstance(x.comparators[0], ast.Constant) and x.comparators[0].value == '') or (negated(x) is not None) or (isinstance(x, ast.Compare) and isinstance(x.left, ast.Call) and dotted(x.left.func) == 'len') for x in conj)
    rep.decide(has_cr and has_empty and len(conj) == 2, 'CR look-ahead', iff, 'look-ahead exactly when the separator is CR and nothing follows it in the buffer', 'the look-ahead condition `{}` is not "separator is CR and the rest of the buffer is empty"'.format(node_text(t)))
    # the separator None case returns None before touching the buffer
    first = [s for s in m.body if isinstance(s, ast.If) and isinstance(s.test, ast.Compare) and is_none(s.test.comparators[0])]
    rep.decide(bool(first) and isinstance(first[0].body[0], ast.Return), 'no complete line', first[0] if first else m, 'without a separator nothing is consumed', 'a buffer without separator is consumed')


def rule_rd_decode(cx, rep, port):
    p = cx.port(port)
    if port == 'py':
        fd = p.func('rbql_csv', 'encode_input_stream')
        wraps = [n for n in walk_no_nested(fd) if isinstance(n, ast.Call) and dotted(n.func) in ('io.TextIOWrapper', 'codecs.getreader')]
        rep.require_count('incremental decoder constructions', len(wraps), 2, fd)
        for w in wraps:
            kws = {k.arg: k.value for k in w.keywords}
            key = node_text(w)
            if 'errors' in kws and not (isinstance(kws['errors'], ast.Constant) and kws['errors'].value in ('strict', None)):
                rep.violated(key, w, 'the decoder is created with errors={}: invalid bytes are silently replaced/dropped instead of failing'.format(node_text(kws['errors'])))
            elif dotted(w.func) == 'io.TextIOWrapper' and 'encoding' not in kws:
                rep.violated(key, w, 'the text wrapper is created without the requested encoding')
            elif dotted(w.func) == 'io.TextIOWrapper' and not is_name(kws['encoding'], fd.args.args[1].arg):
                rep.violated(key, w, 'the text wrapper is created with encoding `{}` instead of the requested one'.format(node_text(kws['encoding'])))
            else:
                rep.holds(key, w, 'incremental strict decoder with the requested encoding')
        # no per-chunk bytes.decode in the reader
        it = p.cls('rbql_csv', 'CSVRecordIterator')
        dec = [n for n in ast.walk(it) if isinstance(n, ast.Call) and isinstance(n.func, ast.Attribute) and n.func.attr == 'decode']
        rep.decide(not dec, 'per-chunk decode', dec[0] if dec else it, 'the reader never decodes chunk by chunk', 'the reader decodes a chunk with `{}`: a multi-byte character split between two reads fails or is corrupted'.format(node_text(dec[0]) if dec else ''))
        # the stream handed to the reader is the wrapped one
        init = [m for m in it.body if isinstance(m, ast.FunctionDef) and m.name == '__init__'][0]
        st = [n for n in walk_no_nested(init) if isinstance(n, ast.Assign) and dotted(n.targets[0]) == 'self.stream']
        ok = len(st) == 1 and isinstance(st[0].value, ast.Call) and dotted(st[0].value.func) == 'encode_input_stream' and len(st[0].value.args) == 2 and is_name(st[0].value.args[1], 'encoding')
        rep.decide(ok, 'reader stream', st[0] if st else init, 'reads go through encode_input_stream(stream, encoding)', 'the reader does not read through encode_input_stream(stream, encoding)')
        # chunk_size only sizes the read
        uses = [n for n in ast.walk(it) if isinstance(n, ast.Attribute) and n.attr == 'chunk_size' and isinstance(n.ctx, ast.Load)]
        bad = [u for u in uses if not (isinstance(getattr(u, 'parent', None), ast.Call) and call_name(u.parent) == 'self.stream.read')]
        rep.decide(not bad and uses, 'chunk_size uses', bad[0] if bad else it, 'chunk_size occurs only as the size argument of stream.read', 'chunk_size influences `{}`'.format(node_text(_stmt(bad[0])) if bad else ''))
    else:
        it = p.cls('rbql_csv', 'CSVRecordIterator')
        ctor = [n for n in ast.walk(it) if isinstance(n, ast.Call) and (dotted(n.func) or '').endswith('TextDecoder')]
        rep.require_count('TextDecoder constructions', len(ctor), 1, it)
        for c in ctor:
            opts = c.args[1] if len(c.args) > 1 and isinstance(c.args[1], ast.Dict) else None
            od = {k.value: v for k, v in zip(opts.keys, opts.values)} if opts is not None else {}
            fatal = od.get('fatal')
            rep.decide(fatal is not None and is_true(fatal), 'TextDecoder fatal', c, 'fatal: true (invalid bytes fail)', 'the decoder is not created with fatal: true: invalid UTF-8 is replaced by U+FFFD instead of failing')
        decs = [n for n in ast.walk(it) if isinstance(n, ast.Call) and (dotted(n.func) or '') == 'self.decoder.decode']
        chunk_decs = [d for d in decs if d.args]
        flushes = [d for d in decs if not d.args]
        rep.require_count('decoder.decode(chunk) sites', len(chunk_decs), 1, it)
        for d in chunk_decs:
            opts = d.args[1] if len(d.args) > 1 and isinstance(d.args[1], ast.Dict) else None
            od = {k.value: v for k, v in zip(opts.keys, opts.values)} if opts is not None else {}
            rep.decide('stream' in od and is_true(od['stream']), 'decode stream flag: ' + node_text(d), d, 'decode(chunk, {stream: true})', 'a chunk is decoded without {stream: true}: a multi-byte character split between two chunks is rejected as invalid UTF-8')
        # a streaming decode keeps an incomplete trailing sequence inside the decoder: outside the chunk handler (whose
        # end-of-stream counterpart flushes) it must be followed by a flush in the same function, or that sequence is never reported
        chunk_home = p.func('rbql_csv', 'CSVRecordIterator.process_data_stream_chunk')
        # helpers of the chunk handler: methods that are called from nowhere else
        methods_ = {m.name: m for m in it.body if isinstance(m, ast.FunctionDef)}
        callers = {}
        for m in methods_.values():
            for c in ast.walk(m):
                if isinstance(c, ast.Attribute) and isinstance(c.value, ast.Name) and c.value.id == 'self' and c.attr in methods_ and c.attr != m.name:
                    callers.setdefault(c.attr, set()).add(m.name)
        chunk_homes = {chunk_home.name}
        grew = True
        while grew:
            grew = False
            for name_, cs_ in callers.items():
                if name_ not in chunk_homes and cs_ and cs_ <= chunk_homes:
                    chunk_homes.add(name_)
                    grew = True
        for d in chunk_decs:
            opts = d.args[1] if len(d.args) > 1 and isinstance(d.args[1], ast.Dict) else None
            od = {k.value: v for k, v in zip(opts.keys, opts.values)} if opts is not None else {}
            home = enclosing_func(d)
            if home is chunk_home or (home is not None and home.name in chunk_homes and methods_.get(home.name) is home) or not ('stream' in od and is_true(od['stream'])):
                continue
            g = cfgmod.CFG(home)
            dn = [n for n in g.nodes if cfgmod.node_contains(n, lambda x, d=d: x is d)]
            is_flush = lambda n: cfgmod.node_contains(n, lambda x: isinstance(x, ast.Call) and (dotted(x.func) or '') == 'self.decoder.decode' and (not x.args or not any(isinstance(a, ast.Dict) and any(getattr(k, 'value', None) == 'stream' and is_true(v) for k, v in zip(a.keys, a.values)) for a in x.args[1:])) and x is not d)  # noqa: E731
            unflushed = any(g.exists_path(n, lambda x: x is g.exit, avoid=is_flush, edge_ok=NORMAL) for n in dn)
            rep.decide(not unflushed, 'one-shot decode in ' + home.name, d, 'streaming decode is flushed before the function ends', '{}() decodes its complete input with {{stream: true}} and never flushes the decoder: a truncated multi-byte character at the end of the data is swallowed instead of raising the decoding error'.format(home.name))
        end = p.func('rbql_csv', 'CSVRecordIterator.process_data_stream_end')
        end_homes = _private_helpers(it, 'process_data_stream_end')[0]
        fl = [f for f in flushes if enclosing_func(f) is end or (enclosing_func(f) is not None and enclosing_func(f).name in end_homes and methods_.get(enclosing_func(f).name) is enclosing_func(f))]
        rep.decide(bool(fl), 'final flush', fl[0] if fl else end, 'the decoder is flushed at end of stream', 'the decoder is never flushed at end of stream: an incomplete trailing character goes unnoticed')
        # decode errors are mapped to the IO error
        chunkfn = p.func('rbql_csv', 'CSVRecordIterator.process_data_stream_chunk')
        tries = [t for name_ in sorted(chunk_homes) for t in ast.walk(methods_[name_]) if isinstance(t, ast.Try)]
        covered = [t for t in tries if any(d in list(ast.walk(ast.Module(body=t.body, type_ignores=[]))) for d in chunk_decs)]
        maps = covered and any('RbqlIOHandlingError' in node_text(h, 2000) for t in covered for h in t.handlers)
        rep.decide(bool(maps), 'decode error mapping', covered[0] if covered else chunkfn, 'decode failures become RbqlIOHandlingError', 'a decode failure is not mapped to RbqlIOHandlingError')
        # bulk mode: Buffer.toString never fails, so validity is decided by a separate test.  That test has to look at the raw bytes:
        # the decoded text alone cannot tell a substituted U+FFFD from a genuine one (valid input containing EF BF BD)
        bulk = p.func('rbql_csv', 'CSVRecordIterator.process_data_bulk')
        raw = bulk.args.args[1].arg if len(bulk.args.args) > 1 else None
        errs = [c for c in walk_no_nested(bulk) if isinstance(c, ast.Call) and 'utf_decoding_error' in node_text(c, 200) and (call_name(c) or '').endswith('store_or_propagate_exception')]
        if raw is None or len(errs) != 1:
            rep.undecided('bulk validity test', bulk, 'bulk decoding error site not recognised')
        else:
            guards = []
            q = getattr(errs[0], 'parent', None)
            while q is not None and q is not bulk:
                if isinstance(q, ast.If):
                    guards.append(q.test)
                q = getattr(q, 'parent', None)
            rawdep = {raw}
            changed = True
            while changed:
                changed = False
                for a in walk_no_nested(bulk):
                    if isinstance(a, ast.Assign) and isinstance(a.targets[0], ast.Name) and a.targets[0].id not in rawdep:
                        v = a.value
                        # a value computed *only* through the lossy decoding of the raw bytes does not carry them
                        lossy = isinstance(v, ast.Call) and isinstance(v.func, ast.Attribute) and v.func.attr in ('toString', 'decode')
                        if not lossy and (names_in(v) & rawdep):
                            rawdep.add(a.targets[0].id)
                            changed = True
            decoded = {a.targets[0].id for a in walk_no_nested(bulk) if isinstance(a, ast.Assign) and isinstance(a.targets[0], ast.Name) and isinstance(a.value, ast.Call) and isinstance(a.value.func, ast.Attribute) and a.value.func.attr in ('toString', 'decode')}
            # derived-from-decoded names are not raw unless they also mention the raw bytes
            for a in walk_no_nested(bulk):
                if isinstance(a, ast.Assign) and isinstance(a.targets[0], ast.Name) and a.targets[0].id in rawdep and a.targets[0].id != raw and not (names_in(a.value) & ({raw} | (rawdep - decoded - {a.targets[0].id}))):
                    rawdep.discard(a.targets[0].id)
            content = [t_ for t_ in guards if names_in(t_) & (rawdep | decoded)]
            ok = any(names_in(t_) & rawdep for t_ in content)
            if not content:
                rep.undecided('bulk validity test', errs[0], 'no guard over the data found for the bulk decoding error')
            elif ok and all(all((isinstance(x, ast.Call) and dotted(x.func) in ('len', 'Buffer.byteLength')) or (isinstance(x, ast.Attribute) and x.attr in ('length', 'byteLength')) or not (names_in(x) & (rawdep | decoded)) for x in ([t_.left] + list(t_.comparators) if isinstance(t_, ast.Compare) else [t_])) for t_ in content):
                # the raw bytes enter the test only through their length
                rep.violated('bulk validity test', content[0], 'bulk input is rejected by comparing sizes only (`{}`): an invalid sequence whose replacement U+FFFD (3 bytes) is as long as the bytes it replaces - a 4-byte character cut after its third byte - passes as valid UTF-8'.format(node_text(content[0], 80)))
            else:
                rep.decide(ok, 'bulk validity test', content[0], 'the rejection test compares against the raw bytes', 'bulk input is rejected by a test on the decoded text only (`{}`): valid UTF-8 that contains the tested character (U+FFFD, bytes EF BF BD) is rejected, and the stream path accepts the same file'.format(node_text(content[0], 80)))


def _stmt(n):
    while n is not None and not isinstance(n, ast.stmt):
        n = getattr(n, 'parent', None)
    return n


def _read_until_found_model(cx, rep, p, r):
    """_read_until_found decided on every sequence of at most four abstract reads (nothing / a chunk without a line break / a chunk with one):
    it reads until a chunk contains a line break or the stream returns nothing, appends every chunk it read to the buffer in read
    order, sets `exhausted` exactly when a read returned nothing, and does not read at all once exhausted.  True when decided."""
    from .. import absexec as AX
    bad = {}
    n = 0
    for start_exhausted in (False, True):
        selfv, stream, b0 = AX.Abs('Self'), AX.Abs('Stream'), AX.Abs('Str', id='B0')
        init = {'exhausted': start_exhausted, 'buffer': b0, 'stream': stream, 'chunk_size': 7}

        def on_attr(ex, node, obj, attr, init=init):
            if obj is selfv and attr in init:
                return init[attr]
            return AX.NOT_HANDLED

        def on_call(ex, node, fname, recv, args, stream=stream):
            short = node.func.attr if isinstance(node.func, ast.Attribute) else fname.split('.')[-1]
            if recv is stream and short == 'read':
                k = len([1 for lab, _, _ in ex.run.choices if lab == 'read'])
                return ex.choose('read', ['', (lambda k=k: AX.Abs('Chunk', id='c%d' % (k + 1), nl=False)), (lambda k=k: AX.Abs('Chunk', id='c%d' % (k + 1), nl=True))])
            if short in ('search', 'findall', 'match') and args and isinstance(args[-1], AX.Abs) and args[-1].kind == 'Chunk':
                return AX.Abs('Match') if args[-1].props['nl'] else None
            if isinstance(recv, AX.Abs) and recv.kind == 'Chunk':
                raise Undecided('operation {} on a chunk is outside the model'.format(short), node)
            return AX.NOT_HANDLED
        ex = AX.Explorer(p, 'rbql_csv', on_call=on_call, on_attr=on_attr, max_choices=4)
        try:
            runs, cut = ex.explore(r, [selfv], cls='CSVRecordIterator')
        except Undecided as e_:
            import os
            if os.environ.get('RBQL_VERIF_DEBUG'):
                print('_read_until_found model gave up:', e_)
            return False

        def flat(v):
            if isinstance(v, AX.Abs) and v.kind in ('Text',):
                return [y for x in v.props['parts'] for y in flat(x)]
            if isinstance(v, AX.Abs) and v.kind == 'Joined':
                return [y for x in v.props['items'] for y in flat(x)] if v.props['sep'] == '' else [v]
            if isinstance(v, (list, tuple)):
                return [y for x in v for y in flat(x)]
            if v == '':
                return []
            return [v]
        for run in runs:
            n += 1
            reads = [v for lab, _, v in run.choices if lab == 'read']
            desc = 'reads [{}]{}'.format(', '.join('nothing' if x == '' else ('chunk with a line break' if x.props['nl'] else 'chunk without line break') for x in reads), ' (already exhausted)' if start_exhausted else '')
            if run.outcome[0] != 'return':
                bad.setdefault('read until newline', desc + ': raises')
                continue
            if start_exhausted:
                if reads:
                    bad.setdefault('exhaustion', 'the stream is read again after it reported its end')
                continue
            # expected stop: first empty read or first chunk with a line break
            stop = next((i for i, x in enumerate(reads) if x == '' or x.props['nl']), None)
            if stop is None:
                bad.setdefault('read until newline', desc + ': reading stops although no line break was seen and the stream did not end')
                continue
            if stop != len(reads) - 1:
                bad.setdefault('read until newline', desc + ': reading goes on after a chunk with a line break / after the end of the stream')
                continue
            exhausted = run.state.get((selfv.uid, 'exhausted'), start_exhausted)
            if bool(exhausted) != (reads[-1] == ''):
                bad.setdefault('exhaustion', desc + ': exhausted is {} afterwards'.format(exhausted))
            buf = flat(run.state.get((selfv.uid, 'buffer'), b0))
            want = [b0] + [x for x in reads if x != '']
            if not (len(buf) == len(want) and all(a is b for a, b in zip(buf, want))):
                bad.setdefault('chunks appended', desc + ': the buffer afterwards is not the old buffer followed by every chunk read, in read order')
    if n < 6:
        import os
        if os.environ.get('RBQL_VERIF_DEBUG'):
            print('_read_until_found model: only', n, 'runs', bad)
        return False
    rep.decide('exhaustion' not in bad, 'exhaustion', r, 'exhausted is set exactly when read() returns nothing ({} abstract read sequences)'.format(n), 'the exhausted flag is not set exactly on an empty read: ' + bad.get('exhaustion', ''))
    rep.decide('read until newline' not in bad, 'read until newline', r, 'reading stops when a chunk contains a line break or the stream ends', bad.get('read until newline', ''))
    rep.decide('chunks appended' not in bad, 'chunks appended', r, 'every chunk read is appended to the buffer in read order', bad.get('chunks appended', ''))
    return True


def _rd_eof_py_shape(cx, rep, p, c, ms, m):
    rep._fallback = 'the Python reader is outside the abstract interpreter'
    moves = [n for n in walk_no_nested(m) if isinstance(n, ast.Assign) and dotted(n.value) == 'self.buffer' and isinstance(n.targets[0], ast.Name)]
    rep.decide(len(moves) == 1, 'final line', moves[0] if moves else m, 'a non-empty remainder at end of input becomes the last row', 'the text left in the buffer at end of input is not returned as a final row')
    # on the paths that test the remainder: empty -> None (end of input), non-empty -> the remainder is the row (path summaries)
    from .. import pathsem

    def buffer_empty(atom):
        """True: atom true means the buffer is empty; False: means non-empty; None: other"""
        e, neg = atom, False
        while negated(e) is not None:
            e, neg = negated(e), not neg
        r = None
        if isinstance(e, ast.Call) and dotted(e.func) == 'len' and e.args and dotted(e.args[0]) == 'self.buffer':
            r = False
        elif dotted(e) == 'self.buffer':
            r = False
        elif isinstance(e, ast.Compare) and len(e.ops) == 1:
            l_, c_ = e.left, e.comparators[0]
            if (isinstance(l_, ast.Call) and dotted(l_.func) == 'len' and l_.args and dotted(l_.args[0]) == 'self.buffer' and isinstance(c_, ast.Constant) and c_.value == 0) or (dotted(l_) == 'self.buffer' and isinstance(c_, ast.Constant) and c_.value == ''):
                r = isinstance(e.ops[0], ast.Eq) if isinstance(e.ops[0], (ast.Eq, ast.NotEq)) else (False if isinstance(e.ops[0], ast.Gt) else None)
        if r is None:
            return None
        return (not r) if neg else r
    ps = pathsem.paths(m)
    if ps is None:
        rep.undecided('empty remainder', m, 'get_row_simple is not summarisable as paths')
    else:
        n_e = n_ne = 0
        bad = None
        for q in ps:
            if q.kind != 'return':
                continue
            state = None
            for t_, pol in q.conds:
                be = buffer_empty(t_)
                if be is not None:
                    state = be if pol else not be
            if state is None:
                continue
            # a string that was just measured is not None: the branch `<buffer> is None` cannot be taken
            if any(pol and isinstance(t_, ast.Compare) and len(t_.ops) == 1 and isinstance(t_.ops[0], (ast.Is, ast.Eq)) and dotted(t_.left) == 'self.buffer' and is_none(t_.comparators[0]) for t_, pol in q.conds):
                continue
            if state:
                n_e += 1
                if not (q.value is None or is_none(q.value)):
                    bad = (q.node, 'with an empty remainder at end of input `{}` is returned instead of None'.format(node_text(q.value, 60)))
            else:
                n_ne += 1
                if q.value is None or is_none(q.value):
                    bad = (q.node, 'None is returned when the remainder is NON-empty: the last line of a file without trailing line break is lost')
        if bad:
            rep.violated('empty remainder', bad[0], bad[1])
        elif n_e and n_ne:
            rep.holds('empty remainder', m, 'an empty remainder ends the input; a non-empty one is returned')
        elif not n_e:
            rep.violated('empty remainder', m, 'an empty remainder does not end the input')
        else:
            rep.undecided('empty remainder', m, 'paths testing the remainder not recognised')
    # _read_until_found sets exhausted only on an empty read
    r = ms['_read_until_found']
    if _read_until_found_model(cx, rep, p, r):
        return
    rep._fallback = '_read_until_found is outside the abstract interpreter'
    ex = [n for n in walk_no_nested(r) if isinstance(n, ast.Assign) and dotted(n.targets[0]) == 'self.exhausted' and is_true(n.value)]
    rv = [n.targets[0].id for n in walk_no_nested(r) if isinstance(n, ast.Assign) and isinstance(n.value, ast.Call) and call_name(n.value) == 'self.stream.read' and isinstance(n.targets[0], ast.Name)]
    ok = len(ex) == 1 and len(rv) == 1 and isinstance(ex[0].parent, ast.If) and _tests_empty(ex[0].parent.test, rv[0]) is True and ex[0] in ex[0].parent.body
    rep.decide(ok, 'exhaustion', ex[0] if ex else r, 'exhausted is set exactly when read() returns nothing', 'the exhausted flag is not set exactly on an empty read')
    # loop continues until a newline is seen in the chunk
    def found_test(e):
        """+1: e is true when the chunk contains a line break (`search(..) is not None` / truthy search); -1: true when it does not; 0: other"""
        neg = 1
        while negated(e) is not None:
            e, neg = negated(e), -neg
        has_search = lambda x: isinstance(x, ast.Call) and isinstance(x.func, ast.Attribute) and x.func.attr == 'search' and x.args and rv and is_name(x.args[0], rv[0])  # noqa: E731
        if isinstance(e, ast.Compare) and len(e.ops) == 1 and has_search(e.left) and is_none(e.comparators[0]):
            return neg * (1 if isinstance(e.ops[0], (ast.IsNot, ast.NotEq)) else -1)
        if has_search(e):
            return neg
        return 0
    brk = [n for n in walk_no_nested(r) if isinstance(n, ast.If) and found_test(n.test) != 0 and n.body and isinstance(n.body[0], ast.Break)]
    loops_r = [n for n in walk_no_nested(r) if isinstance(n, ast.While)]
    flags = [n for n in walk_no_nested(r) if isinstance(n, ast.Assign) and isinstance(n.targets[0], ast.Name) and found_test(n.value) != 0]
    if len(brk) == 1:
        rep.decide(found_test(brk[0].test) == 1, 'read until newline', brk[0], 'reading stops when a chunk contains a line break', 'the read loop stops when a chunk does NOT contain a line break')
    elif len(flags) == 1 and len(loops_r) == 1 and flags[0] is loops_r[0].body[-1]:
        # flag-controlled loop: `while not found: ...; found = search(chunk) is not None`
        f_, pol = flags[0].targets[0].id, found_test(flags[0].value)
        t_ = loops_r[0].test
        cont_when_flag = is_name(t_, f_)
        cont_when_not_flag = negated(t_) is not None and is_name(negated(t_), f_)
        ok2 = (pol == 1 and cont_when_not_flag) or (pol == -1 and cont_when_flag)
        rep.decide(ok2, 'read until newline', flags[0], 'reading stops when a chunk contains a line break (flag-controlled loop)', 'the read loop does not stop exactly when a chunk contains a line break')
    else:
        rep.undecided('read until newline', r, 'how the read loop reacts to a line break in the chunk was not recognised')


def rule_rd_eof(cx, rep, port):
    p = cx.port(port)
    if port == 'py':
        p, c, ms = _it(cx, 'py')
        m = ms['get_row_simple']
        mr = _py_rows_model(cx)
        if mr is not None:
            rep.decide(mr[0], 'final line', m, 'a non-empty remainder at end of input becomes the last row ({} scenarios)'.format(mr[2]), 'the end of the input is not handled correctly: ' + (mr[1] if not mr[0] else ''))
            rep.decide(mr[0], 'empty remainder', m, 'an empty remainder ends the input; a non-empty one is returned ({} scenarios)'.format(mr[2]), 'the end of the input is not handled correctly: ' + (mr[1] if not mr[0] else ''))
            r = ms['_read_until_found'] if '_read_until_found' in ms else None
            if r is not None and not _read_until_found_model(cx, rep, p, r):
                rep.holds('read until newline', m, 'decided with the row model')
            return
        _rd_eof_py_shape(cx, rep, p, c, ms, m)
        return
    else:
        end = p.func('rbql_csv', 'CSVRecordIterator.process_data_stream_end')
        sets = [n for n in walk_no_nested(end) if isinstance(n, ast.Assign) and dotted(n.targets[0]) == 'self.input_exhausted' and is_true(n.value)]
        rep.decide(len(sets) == 1, 'exhaustion', sets[0] if sets else end, 'input_exhausted set at end of stream', 'input_exhausted is not set at end of stream')
        flush = [n for n in walk_no_nested(end) if isinstance(n, ast.If) and 'self.partially_decoded_line' in {dotted(x) for x in ast.walk(n.test)}]
        ok = False
        if flush:
            calls = [c for c in ast.walk(flush[0]) if isinstance(c, ast.Call) and call_name(c) == 'self.process_line']
            t = flush[0].test
            pos = isinstance(t, ast.Call) and dotted(t.func) == 'len' or (isinstance(t, ast.Compare) and isinstance(t.ops[0], (ast.Gt, ast.NotEq)))
            ok = bool(calls) and pos
        sv = _jschunk_stream_verdict(cx, p)
        if sv is not None:
            rep.decide(sv[0], 'final line', end, 'a non-empty partial line is processed as the last line (abstract stream model: ' + sv[1][:80] + ')', sv[1])
        else:
            with rep.as_fallback('the stream reader is outside the abstract interpreter'):
                rep.decide(ok, 'final line', flush[0] if flush else end, 'a non-empty partial line is processed as the last line', 'the partial line left at end of stream is not processed as a final line')
        # the flush may live in a method that end-of-stream handling calls unconditionally
        scopes = [end]
        it_cls = p.cls('rbql_csv', 'CSVRecordIterator')
        for st in end.body:
            if isinstance(st, ast.Expr) and isinstance(st.value, ast.Call) and (call_name(st.value) or '').startswith('self.'):
                m_ = [x for x in it_cls.body if isinstance(x, ast.FunctionDef) and x.name == call_name(st.value)[5:]]
                scopes.extend(m_)
        ml = [n for sc_ in scopes for n in walk_no_nested(sc_) if isinstance(n, ast.If) and any(isinstance(c, ast.Call) and (call_name(c) or '').endswith('is_inside_multiline_record') for c in ast.walk(n.test))]
        ok2 = bool(ml) and any(isinstance(c, ast.Call) and call_name(c) == 'self.process_record_line' for c in ast.walk(ml[0]))
        # ... also after the unterminated last line has been processed: that line can be the one that leaves the record open
        skipped = None
        if ok2 and any(x is ml[0] for x in walk_no_nested(end)):
            g_ = cfgmod.CFG(end)
            is_ml = lambda n: n.kind in ('stmt', 'test') and cfgmod.node_contains(n, lambda x: isinstance(x, ast.Call) and (call_name(x) or '').endswith('is_inside_multiline_record'))  # noqa: E731
            last_line = [n for n in g_.nodes if n.kind in ('stmt', 'test') and cfgmod.node_contains(n, lambda x: isinstance(x, ast.Call) and call_name(x) == 'self.process_line')]
            for n_ in last_line:
                if not is_ml(n_) and g_.exists_path(n_, lambda x: x is g_.exit, avoid=is_ml, edge_ok=lambda a, b, lab: lab not in ('exc', 'raise')):
                    skipped = n_
        if skipped is not None:
            rep.violated('unfinished multi-line record', skipped.ast, 'after the unterminated last line has been processed the end-of-stream handler can finish without asking whether a multi-line record is still open: a final record with an unbalanced quote and no trailing line break is dropped silently')
        else:
            rep.decide(ok2, 'unfinished multi-line record', ml[0] if ml else end, 'an unfinished quoted record is emitted at end of stream', 'an unfinished multi-line record is dropped at end of stream')
        last = [c for c in walk_no_nested(end) if isinstance(c, ast.Call) and call_name(c) == 'self.try_resolve_next_record']
        rep.decide(bool(last), 'wake consumer', last[0] if last else end, 'pending get_record() is resolved at end of stream', 'a pending get_record() is never resolved at end of stream')


def rule_rd_bom(cx, rep, port):
    p = cx.port(port)
    mod = 'rbql_csv'
    fd = p.func(mod, 'remove_utf8_bom')
    line, enc = fd.args.args[0].arg, fd.args.args[1].arg
    # per path: under which encoding, after which BOM test, how many code units are cut (path summaries with module constants
    # substituted and len('...') folded, so named constants, nested ifs and computed lengths are all the same thing)
    from .. import pathsem
    consts = p.module_consts(mod)
    env0 = {k: ast.Constant(value=v) for k, v in consts.items() if isinstance(v, (str, int))}
    ps = pathsem.paths_with_env(fd, env0)

    class Fold(ast.NodeTransformer):
        def visit_Call(self, node):
            self.generic_visit(node)
            if dotted(node.func) == 'len' and len(node.args) == 1 and isinstance(node.args[0], ast.Constant) and isinstance(node.args[0].value, str):
                return ast.Constant(value=len(node.args[0].value))
            return node
    found = {}
    problems = []
    if ps is None:
        rep.undecided('BOM arms', fd, 'remove_utf8_bom is not straight-line code')
    else:
        for q in ps:
            if q.kind != 'return' or q.value is None:
                continue
            v = Fold().visit(q.value)
            if is_name(v, line):
                continue
            cut = None
            min_len = []
            if isinstance(v, ast.Subscript) and is_name(v.value, line) and isinstance(v.slice, ast.Slice) and isinstance(v.slice.lower, ast.Constant) and v.slice.upper is None:
                cut = v.slice.lower.value
            if isinstance(v, ast.Call) and isinstance(v.func, ast.Attribute) and v.func.attr in ('substring', 'slice', 'substr') and is_name(v.func.value, line) and len(v.args) == 1 and isinstance(v.args[0], ast.Constant):
                cut = v.args[0].value
            encs, bom_units = set(), []
            for atom, pol in pathsem.atoms(q.conds):
                atom = Fold().visit(atom)
                # length guard in front of the BOM test: the shortest line it lets through
                if isinstance(atom, ast.Compare) and len(atom.ops) == 1 and isinstance(atom.comparators[0], ast.Constant) and isinstance(atom.comparators[0].value, int) and not isinstance(atom.comparators[0].value, bool):
                    l0 = atom.left
                    is_len = (isinstance(l0, ast.Call) and dotted(l0.func) == 'len' and l0.args and is_name(l0.args[0], line)) or (isinstance(l0, ast.Attribute) and l0.attr == 'length' and is_name(l0.value, line))
                    if is_len:
                        k = atom.comparators[0].value
                        op = type(atom.ops[0])
                        if not pol:
                            op = {ast.Lt: ast.GtE, ast.LtE: ast.Gt, ast.Gt: ast.LtE, ast.GtE: ast.Lt, ast.Eq: ast.NotEq, ast.NotEq: ast.Eq}.get(op, op)
                        shortest = {ast.GtE: k, ast.Gt: k + 1, ast.Eq: k}.get(op)
                        if shortest is not None:
                            min_len.append((shortest, q.node))
                        continue
                if not pol or not isinstance(atom, ast.Compare) or len(atom.ops) != 1 or not isinstance(atom.ops[0], (ast.Eq, ast.Is)):
                    continue
                l_, r_ = atom.left, atom.comparators[0]
                if is_name(l_, enc) and isinstance(r_, ast.Constant):
                    encs.add(r_.value)
                elif isinstance(r_, ast.Constant) and line in names_in(l_):
                    if isinstance(r_.value, str):
                        bom_units.extend(ord(ch) for ch in r_.value)
                    elif isinstance(r_.value, int) and not isinstance(r_.value, bool):
                        bom_units.append(r_.value)
            if len(encs) > 1:
                continue     # infeasible: the encoding cannot equal two different constants
            for e_ in encs:
                found.setdefault(e_, []).append((cut, bom_units, q.node))
                if cut is not None:
                    for shortest, nd in min_len:
                        if shortest > cut:
                            problems.append((e_, shortest, cut, nd))
        for encn, want_units in (('utf-8', [0xFEFF]), ('latin-1' if port == 'py' else 'binary', [0xEF, 0xBB, 0xBF])):
            arms_ = found.get(encn)
            if not arms_:
                rep.violated('BOM arm ' + encn, fd, 'no BOM removal for {} input'.format(encn))
                continue
            bad = [(cut, units, node) for cut, units, node in arms_ if not (cut == len(want_units) and units == want_units)]
            rep.decide(not bad, 'BOM arm ' + encn, arms_[0][2], 'removes exactly the {} BOM code unit(s) after testing for them'.format(len(want_units)), 'the {} BOM arm removes {} unit(s) after testing {} (must test {} and remove exactly {})'.format(encn, bad[0][0] if bad else '', [hex(u) for u in bad[0][1]] if bad else '', [hex(u) for u in want_units], len(want_units)))
        for e_, shortest, cut, nd in problems[:1]:
            rep.violated('BOM length guard ' + str(e_), nd, 'the {} BOM is removed only from lines of at least {} code units although the BOM has {}: a first line that consists of the BOM alone keeps it (the header / first field then carries the BOM and no warning is given)'.format(e_, shortest, cut))
    last = fd.body[-1]
    rep.decide(isinstance(last, ast.Return) and is_name(last.value, line), 'no BOM', last, 'a line without BOM is returned unchanged', 'a line without BOM is not returned unchanged')
    # caller: guarded by first physical line, sets the flag iff the line changed
    it = p.cls(mod, 'CSVRecordIterator')
    calls = [c for c in ast.walk(it) if isinstance(c, ast.Call) and call_name(c) == 'remove_utf8_bom']
    rep.require_count('remove_utf8_bom call sites', len(calls), 1, it)
    for c in calls:
        g = c
        while g is not None and not (isinstance(g, ast.If) and 'self.NL' in {dotted(x) for x in ast.walk(g.test)}):
            g = getattr(g, 'parent', None)
        ok = g is not None and isinstance(g.test, ast.Compare) and isinstance(g.test.ops[0], ast.Eq) and isinstance(g.test.comparators[0], ast.Constant) and g.test.comparators[0].value == 1
        rep.decide(ok, 'first line guard', g if g is not None else c, 'BOM removal only on the first physical line (NL == 1)', 'BOM removal is not restricted to the first physical line')
        rep.decide(len(c.args) == 2 and dotted(c.args[1]) == 'self.encoding', 'BOM encoding argument', c, 'decided by the reader\'s encoding', 'BOM removal is not given the reader\'s encoding')
        fdm = enclosing_func(c)
        flags = [n for n in walk_no_nested(fdm) if isinstance(n, ast.Assign) and dotted(n.targets[0]) == 'self.utf8_bom_removed' and is_true(n.value)]
        okf = len(flags) == 1 and isinstance(flags[0].parent, ast.If) and isinstance(flags[0].parent.test, ast.Compare) and isinstance(flags[0].parent.test.ops[0], ast.NotEq)
        rep.decide(okf, 'BOM flag', flags[0] if flags else fdm, 'flag set iff the line changed', 'the BOM warning flag is not set exactly when a BOM was removed')
    # NL is incremented before the guard, by one per physical line
    if port == 'py':
        m = p.func(mod, 'CSVRecordIterator.get_row_simple')
    else:
        m = p.func(mod, 'CSVRecordIterator.process_line')
    incs = [n for n in walk_no_nested(m) if isinstance(n, ast.AugAssign) and dotted(n.target) == 'self.NL']
    rep.decide(len(incs) == 1 and isinstance(incs[0].value, ast.Constant) and incs[0].value.value == 1, 'line counter', incs[0] if incs else m, 'NL += 1 once per physical line', 'the physical line counter is not incremented by one per line')
    # no earlier stage consumes the BOM
    if port == 'py':
        consts = p.module_consts(mod)
        rep.decide(consts.get('default_csv_encoding') == 'utf-8', 'codec', (p.files[mod], 0), 'default codec is utf-8 (not utf-8-sig)', 'default codec is {!r}: a -sig codec strips the BOM before the warning logic sees it'.format(consts.get('default_csv_encoding')))
        sig = [n for n in ast.walk(p.modules[mod]) if isinstance(n, ast.Constant) and isinstance(n.value, str) and n.value.lower().replace('_', '-') == 'utf-8-sig']
        rep.decide(not sig, 'sig codec', sig[0] if sig else (p.files[mod], 0), 'no utf-8-sig codec', 'the utf-8-sig codec strips the BOM silently')
    else:
        ctor = [n for n in ast.walk(it) if isinstance(n, ast.Call) and (dotted(n.func) or '').endswith('TextDecoder')]
        for c in ctor:
            opts = c.args[1] if len(c.args) > 1 and isinstance(c.args[1], ast.Dict) else None
            od = {k.value: v for k, v in zip(opts.keys, opts.values)} if opts is not None else {}
            rep.decide('ignoreBOM' in od and is_true(od['ignoreBOM']), 'TextDecoder ignoreBOM', c, 'ignoreBOM: true keeps the BOM for the warning logic', 'TextDecoder is created without ignoreBOM: true: the decoder strips the BOM itself, so a utf-8 *stream* with BOM produces no warning although bulk reading does')


def rule_rd_comment(cx, rep, port):
    p = cx.port(port)
    if port == 'py':
        fd = p.func('rbql_csv', 'CSVRecordIterator.get_record')
        mr = _py_rows_model_kind(cx, 'record')
        if mr is not None:
            # stream -> lines -> records with a comment prefix configured: which lines become records, and the line counter
            rep.decide(mr[0], 'records and line numbers with comments', fd, 'comment lines are skipped, every other line is a record, NL counts all of them ({} scenarios)'.format(mr[2]), 'with a comment prefix configured the records or the line counter depend on how the input is cut into reads: ' + (mr[1] if not mr[0] else ''))
            if not mr[0]:
                return
        g = cfgmod.CFG(fd)
        incs = [n for n in g.nodes if n.kind == 'stmt' and isinstance(n.ast, (ast.AugAssign, ast.Assign)) and dotted(n.ast.target if isinstance(n.ast, ast.AugAssign) else n.ast.targets[0]) == 'self.NR']
        fetch = [n for n in g.nodes if n.kind == 'stmt' and isinstance(n.ast, ast.Assign) and isinstance(n.ast.value, ast.Call) and call_name(n.ast.value) == 'self.polymorphic_get_row']
        lines = {dotted(f.ast.targets[0]) for f in fetch}
        if len(incs) != 1 or not fetch or len(lines) != 1 or None in lines:
            rep.undecided('comment skip', fd, 'record counter / row fetch not recognised')
            return
        line = lines.pop()
        bad = False
        for f in fetch:       # a priming read and a re-read inside the skipping loop are both starting points
            b1 = _comment_escape_path(g, f, incs[0], line, fetch)
            if b1 is None:
                bad = None
                break
            if b1 is not False:
                bad = b1
                break
        if bad is None:
            rep.undecided('comment skip', fd, 'comment test not recognised')
        else:
            rep.decide(bad is False, 'comment skip', fetch[0].ast, 'every path from reading a line to the record counter establishes "no comment prefix configured or the line does not start with it"', 'a line that starts with the comment prefix can reach the record counter (path through line {}): comment lines are processed as records'.format(bad))
        sw = [x for x in ast.walk(fd) if isinstance(x, ast.Call) and isinstance(x.func, ast.Attribute) and x.func.attr == 'startswith']
        rep.decide(bool(sw) and all(dotted(x.args[0]) == 'self.comment_prefix' and dotted(x.func.value) == line for x in sw), 'comment prefix', sw[0] if sw else fd, 'line.startswith(comment_prefix)', 'the comment test is not `line.startswith(self.comment_prefix)`')
        # empty prefix is normalised to None
        init = p.func('rbql_csv', 'CSVRecordIterator.__init__')
        cp = [n for n in walk_no_nested(init) if isinstance(n, ast.Assign) and dotted(n.targets[0]) == 'self.comment_prefix']
        rep.decide(len(cp) == 1 and isinstance(cp[0].value, ast.IfExp), 'empty prefix', cp[0] if cp else init, 'an empty comment prefix is treated as none', 'an empty comment prefix is not normalised to None: every line would be a comment')
    else:
        from .. import pathsem
        fd = p.func('rbql_csv', 'CSVRecordIterator.process_record_line_simple')
        line = fd.args.args[1].arg
        ps = pathsem.paths(fd)
        if ps is None:
            rep.undecided('comment skip', fd, 'process_record_line_simple is not summarisable as paths')
        else:
            verdict, seen = True, 0
            for P in (True, False):
                for S in (True, False):
                    def leaf(e, P=P, S=S):
                        if dotted(e) == 'self.comment_prefix':
                            return P
                        if isinstance(e, ast.Compare) and len(e.ops) == 1 and dotted(e.left) == 'self.comment_prefix' and is_none(e.comparators[0]):
                            return (not P) if isinstance(e.ops[0], (ast.Is, ast.Eq)) else P
                        if isinstance(e, ast.Call) and isinstance(e.func, ast.Attribute) and e.func.attr in ('startsWith', 'startswith') and is_name(e.func.value, line) and e.args and dotted(e.args[0]) == 'self.comment_prefix':
                            return S
                        return None
                    for q in ps:
                        if not pathsem.consistent(q, leaf):
                            continue
                        seen += 1
                        processed = any(isinstance(c, ast.Call) and call_name(c) == 'self.process_record_line' for c in q.calls)
                        if processed == (P and S):
                            verdict = False
            rep.decide(verdict and seen >= 4, 'comment skip', fd, 'a line is processed as a record iff it is not a comment line (prefix configured and the line starts with it)', 'comment-prefixed lines are not skipped before process_record_line (or ordinary lines are)')
        agg = p.func('csv_utils', 'MultilineRecordAggregator.add_line')
        aps = pathsem.paths(agg)
        if aps is None:
            rep.undecided('rfc comment skip', agg, 'add_line is not summarisable as paths')
        else:
            marks = [q for q in aps if any(dotted(t_) == 'self.has_comment_line' and is_true(v_) for t_, v_ in q.stores)]
            ok2 = bool(marks)
            for q in marks:
                ats = pathsem.atoms(q.conds)
                empty = any(pol and isinstance(a_, ast.Compare) and len(a_.ops) == 1 and isinstance(a_.ops[0], ast.Eq) and isinstance(a_.left, ast.Call) and dotted(a_.left.func) == 'len' and dotted(a_.left.args[0]) == 'self.rfc_line_buffer' and const_value_(a_.comparators[0]) == 0 for a_, pol in ats)
                starts = any(pol and isinstance(a_, ast.Call) and isinstance(a_.func, ast.Attribute) and a_.func.attr in ('startsWith', 'startswith') for a_, pol in ats)
                ok2 = ok2 and empty and starts
            rep.decide(ok2, 'rfc comment skip', agg, 'in quoted_rfc a comment is recognised only outside a multi-line record', 'in quoted_rfc a comment prefix inside a multi-line record is treated as a comment')


def _comment_escape_path(g, src, dst, line, refetch=()):
    """False if no path src -> dst is consistent with (prefix is not None and line.startswith(prefix)); a line number if one is;
    None if the tests are not recognised.  Atoms: A = `self.comment_prefix is None`, B = `line.startswith(self.comment_prefix)`."""
    def ev(e, A, B):
        if isinstance(e, ast.BoolOp):
            vals = [ev(v, A, B) for v in e.values]
            if any(v is None for v in vals):
                return None
            return all(vals) if isinstance(e.op, ast.And) else any(vals)
        if isinstance(e, ast.UnaryOp) and isinstance(e.op, ast.Not):
            v = ev(e.operand, A, B)
            return None if v is None else (not v)
        if isinstance(e, ast.Compare) and dotted(e.left) == 'self.comment_prefix' and is_none(e.comparators[0]):
            return A if isinstance(e.ops[0], (ast.Is, ast.Eq)) else (not A)
        if isinstance(e, ast.Call) and isinstance(e.func, ast.Attribute) and e.func.attr == 'startswith' and dotted(e.func.value) == line:
            return B
        if dotted(e) == 'self.comment_prefix':
            return not A
        if isinstance(e, ast.Compare) and len(e.ops) == 1 and dotted(e.left) == line and is_none(e.comparators[0]):
            return isinstance(e.ops[0], (ast.IsNot, ast.NotEq))     # the line under consideration exists
        return None
    seen_tests = [n for n in g.nodes if n.kind == 'test' and ('comment_prefix' in node_text(n.ast, 300))]
    if not seen_tests:
        return None
    # search paths src -> dst under the valuation A=False, B=True (a comment line with a configured prefix)
    A, B = False, True
    stack = [src]
    seen = set()
    while stack:
        n = stack.pop()
        if n.id in seen:
            continue
        seen.add(n.id)
        if n is dst:
            return n.lineno
        for s_, lab in n.succ:
            if lab in ('exc', 'raise', 'assert'):
                continue
            if n.kind == 'test' and n in seen_tests:
                v = ev(n.ast, A, B)
                if v is None:
                    return None
                if (lab == 'T') != v:
                    continue
            if s_ is src or s_ in refetch:
                continue   # a new line is fetched: new valuation
            stack.append(s_)
    return False


def _rfc_py_model(cx, rep, p, fd):
    """quoted_rfc record assembly (Python) decided on the abstract transition system of get_row_rfc: each physical line read is
    end-of-input / a line with an even / odd number of quotes (the first one: comment or not); every sequence of such reads up to
    the bound is explored and the record returned is compared with the one RFC assembly requires"""
    from .. import absexec as AX
    selfv = AX.Abs('Self')
    # what get_row_simple itself is built from: taking lines from these directly bypasses its line counting, BOM removal and decode-error translation
    simple = p.func('rbql_csv', 'CSVRecordIterator.get_row_simple')
    primitives = {c.func.attr for c in ast.walk(simple) if isinstance(c, ast.Call) and isinstance(c.func, ast.Attribute) and is_name(c.func.value, 'self')}
    bypass = []

    def on_attr(ex, node, obj, attr):
        if obj is selfv and attr == 'comment_prefix':
            return ex.choose('prefix', [None, lambda: AX.Abs('Prefix')])
        if obj is selfv and p.func('rbql_csv', 'CSVRecordIterator.' + attr, required=False) is None:
            return AX.Abs('Env', name=attr)
        return AX.NOT_HANDLED

    def on_call(ex, node, fname, recv, args):
        m = fname.split('.')[-1]
        if recv is selfv and m == 'get_row_simple' and not args:
            first = not any(lab == 'read' for lab, _, _ in ex.run.choices)
            if first:
                opts = [None] + [(lambda o=o, c=c: AX.Abs('Line', odd=o, comment=c)) for o in (False, True) for c in (False, True)]
            else:
                opts = [None] + [(lambda o=o: AX.Abs('Line', odd=o, comment=False)) for o in (False, True)]
            return ex.choose('read', opts)
        if recv is selfv and m in primitives:
            bypass.append((m, node))
            return ex.choose('read', [None] + [(lambda o=o: AX.Abs('Line', odd=o, comment=False)) for o in (False, True)])
        if isinstance(recv, AX.Abs) and recv.kind == 'Line':
            if m == 'count' and len(args) == 1 and args[0] == '"':
                return AX.Abs('Count', odd=recv.props['odd'])
            if m in ('startswith', 'startsWith') and len(args) == 1 and isinstance(args[0], AX.Abs) and args[0].kind == 'Prefix':
                return recv.props['comment']
            raise Undecided('operation {} on a physical line is outside the model'.format(m), node)
        return AX.NOT_HANDLED
    ex = AX.Explorer(p, 'rbql_csv', on_call=on_call, on_attr=on_attr, max_choices=5)
    runs, cut = ex.explore(fd, [selfv], cls='CSVRecordIterator')

    def flat(v):
        """a returned record as the sequence of its pieces: lines and separators"""
        if isinstance(v, AX.Abs) and v.kind == 'Joined':
            out = []
            for i, it in enumerate(v.props['items']):
                if i:
                    out.append(v.props['sep'])
                out.extend(flat(it))
            return out
        if isinstance(v, AX.Abs) and v.kind == 'Text':
            out = []
            for it in v.props['parts']:
                out.extend(flat(it))
            return out
        return [v]

    def show(seq):
        return ' '.join('EOF' if x is None else ('{}{}'.format('odd' if x.props['odd'] else 'even', '(comment)' if x.props.get('comment') else '') if isinstance(x, AX.Abs) and x.kind == 'Line' else repr(x)) for x in seq)
    bad = {}
    n = 0
    # environment flags whose meaning is known: none of them says anything about the lines still to come
    KNOWN_ENV = {'exhausted': 'the source being exhausted does not mean that no buffered line follows'}
    # flags computed from the read buffer describe how the input happened to be cut into reads, not the line at hand
    cls_ = p.cls('rbql_csv', 'CSVRecordIterator')
    for a_ in ast.walk(cls_):
        if isinstance(a_, ast.Assign) and len(a_.targets) == 1 and (dotted(a_.targets[0]) or '').startswith('self.') and any((dotted(x) or '') in ('self.buffer', 'self.stream') for x in ast.walk(a_.value)):
            KNOWN_ENV.setdefault(dotted(a_.targets[0])[5:], 'it is computed from the read buffer (`{}`), i.e. from where the reads happened to cut the input'.format(node_text(a_.value, 60)))
    und = []

    class _B(dict):
        def setdefault(self, k, v):
            envs = [lab[4:] for lab, _, _ in cur.choices if lab.startswith('env:')]
            if [e for e in envs if e not in KNOWN_ENV]:
                und.append('{} (depends on self.{})'.format(v, '/'.join(envs)))
                return None
            if envs:
                v = '{} [with self.{} = {}: {}]'.format(v, envs[0], [val for lab, _, val in cur.choices if lab == 'env:' + envs[0]][0], KNOWN_ENV[envs[0]])
            return dict.setdefault(self, k, v)
    bad = _B()
    for r in sorted(runs, key=lambda r_: len(r_.choices)):
        cur = r
        reads = [v for lab, _, v in r.choices if lab == 'read']
        prefix = [v for lab, _, v in r.choices if lab == 'prefix']
        has_prefix = bool(prefix) and prefix[0] is not None
        if not reads:
            bad.setdefault('first line', 'a record is produced without reading a line')
            continue
        n += 1
        r1 = reads[0]
        if r1 is None:
            want, used, cls = [None], 1, 'first line'
        elif (has_prefix and r1.props['comment']) or not r1.props['odd']:
            want, used, cls = [r1], 1, 'first line'
        else:
            items = [r1]
            used = 1
            cls = 'continuation'
            closed = False
            for x in reads[1:]:
                used += 1
                if x is None:
                    cls = 'unfinished record'
                    closed = True
                    break
                items.append(x)
                if x.props['odd']:
                    closed = True
                    break
            if not closed:
                # the implementation stopped reading although the quote is still open and input remains
                bad.setdefault('continuation', 'after lines [{}] the record is ended although the open quote is not closed and the input is not exhausted'.format(show(reads)))
                continue
            want = []
            for i, it in enumerate(items):
                if i:
                    want.append('\n')
                want.append(it)
        kind, val, node = r.outcome
        if kind != 'return':
            bad.setdefault(cls, 'for lines [{}] an error is raised instead of returning the record'.format(show(reads)))
            continue
        got = flat(val)
        if len(reads) > used:
            bad.setdefault(cls, 'for lines [{}] reading goes on after the record is complete'.format(show(reads)))
            continue
        same = len(got) == len(want) and all((a is b) or (isinstance(a, str) and isinstance(b, str) and a == b) for a, b in zip(got, want))
        if not same:
            glines = [x for x in got if isinstance(x, AX.Abs)]
            wlines = [x for x in want if isinstance(x, AX.Abs)]
            if cls != 'first line' and len(glines) == len(wlines) and all(a is b for a, b in zip(glines, wlines)):
                seps = sorted({x for x in got if isinstance(x, str)})
                bad.setdefault('line joining', 'physical lines of a multi-line record are joined with {!r} instead of LF'.format(seps[0] if seps else ''))
            elif cls != 'first line' and len(glines) < len(wlines):
                bad.setdefault('line collection' if cls == 'continuation' else cls, 'for lines [{}] the record returned is [{}]: {}'.format(show(reads), show(got), 'an unfinished multi-line record at end of input is dropped or truncated' if cls == 'unfinished record' else 'continuation lines are not all collected'))
            else:
                bad.setdefault(cls, 'for lines [{}] the record returned is [{}] instead of [{}]'.format(show(reads), show(got), show(want)))
    if bypass:
        rep.violated('line source', bypass[0][1], 'get_row_rfc takes physical lines from {}() directly and bypasses get_row_simple (line counting, BOM removal, decode-error translation)'.format(bypass[0][0]))
        return
    if und and not bad:
        rep.undecided('quote parity', fd, und[0])
        return
    if n < 20 and not bad:
        rep.undecided('quote parity', fd, 'abstract exploration covered only {} line sequences'.format(n))
        return
    rep.holds('line source', fd, 'every physical line is obtained through get_row_simple')
    for cls, good in (('first line', 'end of input gives None; a comment line or a line with balanced quotes is a complete record'),
                      ('continuation', 'the record ends with the first continuation line that has an odd number of quotes'),
                      ('unfinished record', 'an unfinished record at end of input is still returned'),
                      ('line joining', 'physical lines are joined with LF'),
                      ('line collection', 'every continuation line is collected')):
        rep.decide(cls not in bad, cls, fd, '{} ({} abstract line sequences explored, {} cut at the bound)'.format(good, n, cut), bad.get(cls, ''))


def rule_rd_rfc(cx, rep, port):
    p = cx.port(port)
    if port == 'py':
        fd = p.func('rbql_csv', 'CSVRecordIterator.get_row_rfc')
        mr = _py_rows_model_kind(cx, 'rfc')
        if mr is not None:
            # the whole reader stack (stream -> buffer -> lines -> records) on short texts with quotes
            rep.decide(mr[0], 'records of short texts', fd, 'records are the lines grouped by quote parity ({} scenarios: {})'.format(mr[2], mr[1]), 'multi-line records are not assembled from the lines of the input: ' + (mr[1] if not mr[0] else ''))
            if not mr[0]:
                return
        _rfc_py_model(cx, rep, p, fd)
    else:
        fd = p.func('csv_utils', 'MultilineRecordAggregator.add_line')
        full = [n for n in walk_no_nested(fd) if isinstance(n, ast.Assign) and dotted(n.targets[0]) == 'self.has_full_record']
        if not full:
            rep.undecided('quote parity', fd, 'has_full_record definition not found')
            return
        txt = ' / '.join(node_text(f_.value, 200) for f_ in full)
        # truth table of the completion test over (U = odd number of quotes in this line, F = this is the first line of the record);
        # lengths of the line buffer are interpreted at the place where they are read: before the push 0 / >= 1, after it 1 / >= 2
        pushes = [c for c in walk_no_nested(fd) if isinstance(c, ast.Call) and isinstance(c.func, ast.Attribute) and c.func.attr in ('push', 'append') and dotted(c.func.value) == 'self.rfc_line_buffer']
        push_pos = (pushes[0].lineno, pushes[0].col_offset) if len(pushes) == 1 else None

        def ev(e, U, F, at):
            if isinstance(e, ast.BoolOp):
                vals = [ev(v_, U, F, at) for v_ in e.values]
                if any(v_ is None for v_ in vals):
                    return None
                return all(vals) if isinstance(e.op, ast.And) else any(vals)
            if isinstance(e, ast.UnaryOp) and isinstance(e.op, ast.Not):
                r_ = ev(e.operand, U, F, at)
                return None if r_ is None else not r_
            if isinstance(e, ast.Name):
                ds = [n for n in walk_no_nested(fd) if isinstance(n, ast.Assign) and is_name(n.targets[0], e.id)]
                if len(ds) == 1:
                    if isinstance(ds[0].value, ast.Call) and isinstance(ds[0].value.func, ast.Attribute) and ds[0].value.func.attr in ('match', 'matchAll'):
                        return True     # null guard of the match list: with no quote at all the count is even anyway
                    return ev(ds[0].value, U, F, (ds[0].lineno, ds[0].col_offset))
                return None
            t_ = node_text(e, 200).replace(' ', '')
            if '%2==1' in t_:
                return U
            if '%2==0' in t_:
                return not U
            if isinstance(e, ast.Compare) and len(e.ops) == 1 and isinstance(e.left, ast.Call) and dotted(e.left.func) == 'len' and dotted(e.left.args[0]) == 'self.rfc_line_buffer' and isinstance(e.comparators[0], ast.Constant) and push_pos is not None:
                after = at > push_pos
                n_ = (1 if F else 2) if after else (0 if F else 1)
                k_ = e.comparators[0].value
                op = e.ops[0]
                return {ast.Eq: n_ == k_, ast.NotEq: n_ != k_, ast.Gt: n_ > k_, ast.GtE: n_ >= k_, ast.Lt: n_ < k_, ast.LtE: n_ <= k_}.get(type(op))
            return None
        if len(full) == 1:
            rows = [(U, F, ev(full[0].value, U, F, (full[0].lineno, full[0].col_offset))) for U in (True, False) for F in (True, False)]
        else:
            # several assignments under conditions: the value is that of the assignment whose guards hold in the valuation
            def guards_of(n_):
                gs = []
                ch, q_ = n_, getattr(n_, 'parent', None)
                while q_ is not None and q_ is not fd:
                    if isinstance(q_, ast.If):
                        gs.append((q_.test, ch in q_.body))
                    elif isinstance(q_, (ast.For, ast.While, ast.Try)):
                        return None
                    ch, q_ = q_, getattr(q_, 'parent', None)
                return gs
            rows = []
            for U in (True, False):
                for F in (True, False):
                    vals = []
                    for f_ in full:
                        gs = guards_of(f_)
                        if gs is None:
                            vals = [None]
                            break
                        gv = [(ev(t_, U, F, (t_.lineno, t_.col_offset)), pol) for t_, pol in gs]
                        if any(v_ is None for v_, _ in gv):
                            vals = [None]
                            break
                        if all(v_ == pol for v_, pol in gv):
                            vals.append(ev(f_.value, U, F, (f_.lineno, f_.col_offset)))
                    rows.append((U, F, vals[-1] if vals else None))
        if any(r_[2] is None for r_ in rows):
            rep.undecided('quote parity', full[0], 'record completion test `{}` not evaluable'.format(txt))
        else:
            ok = all(r_[2] == ((not r_[0] and r_[1]) or (r_[0] and not r_[1])) for r_ in rows)
            rep.decide(ok, 'quote parity', full[0], 'complete iff (balanced and single line) or (unbalanced continuation line)', 'record completion test `{}` is not "(balanced single line) or (unbalanced continuation line)"'.format(txt))
        par = [n for n in walk_no_nested(fd) if isinstance(n, ast.Assign) and is_name(n.targets[0], 'has_unbalanced_double_quote')]
        okp = len(par) == 1 and '% 2 == 1' in node_text(par[0].value)
        rep.decide(okp, 'parity computation', par[0] if par else fd, 'odd number of double quotes', 'quote parity is not computed as count % 2 == 1')
        push = [c for c in walk_no_nested(fd) if isinstance(c, ast.Call) and isinstance(c.func, ast.Attribute) and c.func.attr == 'push']
        rep.decide(len(push) == 1 and all(push[0].pos < f_.pos for f_ in full), 'line collection', push[0] if push else fd, 'the line is collected before completeness is evaluated', 'the line is not collected before the completeness test')
        it = p.func('rbql_csv', 'CSVRecordIterator.process_partial_rfc_record_line')
        gl = [c for c in ast.walk(it) if isinstance(c, ast.Call) and (call_name(c) or '').endswith('get_full_line')]
        rep.decide(gl and all(isinstance(c.args[0], ast.Constant) and c.args[0].value == '\n' for c in gl), 'line joining', gl[0] if gl else it, 'physical lines are joined with LF', 'physical lines of a multi-line record are not joined with LF')


def rule_rd_hdrflag(cx, rep, port):
    """every assignment has_header := K is paired with first_record_should_be_emitted := not K"""
    p = cx.port(port)
    it = p.cls('rbql_csv', 'CSVRecordIterator')
    n = 0
    hq_model = _modifier_model(cx, port, p, it)
    for m in [x for x in it.body if isinstance(x, ast.FunctionDef)]:
        if hq_model is not None and m.name == 'handle_query_modifier':
            n += 2
            continue
        for blk in _blocks(m):
            hh = [s for s in blk if isinstance(s, ast.Assign) and dotted(s.targets[0]) == 'self.has_header']
            for h in hh:
                n += 1
                em = [s for s in blk if isinstance(s, ast.Assign) and dotted(s.targets[0]) == 'self.first_record_should_be_emitted']
                key = '{}: {}'.format(m.name, node_text(h))
                if isinstance(h.value, ast.Constant):
                    ok = any(isinstance(e.value, ast.Constant) and e.value.value is (not h.value.value) for e in em)
                    rep.decide(ok, key, h, 'paired with first_record_should_be_emitted = {}'.format(not h.value.value), 'has_header = {} is not paired with first_record_should_be_emitted = {}: the header line would be {}'.format(h.value.value, not h.value.value, 'processed as data' if h.value.value else 'dropped'))
                else:
                    # constructor: has_header param; emission flag must be `not has_header` somewhere in the constructor
                    em_all = [s for s in walk_no_nested(m) if isinstance(s, ast.Assign) and dotted(s.targets[0]) == 'self.first_record_should_be_emitted']
                    ok = any(negated(e.value) is not None and dotted(negated(e.value)) in (dotted(h.value), 'self.has_header') for e in em_all)
                    rep.decide(ok, key, h, 'paired with first_record_should_be_emitted = not has_header', 'the constructor does not derive first_record_should_be_emitted as `not has_header`')
    rep.require_count('has_header assignments', n, 3, it)
    # modifier vocabulary
    hq = [m for m in it.body if isinstance(m, ast.FunctionDef) and m.name == 'handle_query_modifier'][0]
    from .. import pathsem
    mparam = hq.args.args[1].arg
    want = {'header': True, 'headers': True, 'noheader': False, 'noheaders': False}
    hps = pathsem.paths(hq)
    if hq_model is not None:
        rep.decide(hq_model == '', 'modifier vocabulary', hq, 'header(s) -> has_header and the first record kept back, noheader(s) -> the reverse, anything else changes nothing (evaluated for 6 words x 4 states)', hq_model)
    elif hps is None:
        rep.undecided('modifier vocabulary', hq, 'handle_query_modifier is not summarisable as paths')
    else:
        words = {}
        unknown = False
        for word in list(want) + ['<any other word>']:
            def leaf(e, word=word):
                def member(seq):
                    if isinstance(seq, (ast.List, ast.Tuple, ast.Set)) and all(isinstance(x, ast.Constant) for x in seq.elts):
                        return word in [x.value for x in seq.elts]
                    return None
                if isinstance(e, ast.Compare) and len(e.ops) == 1:
                    l_, r_, op = e.left, e.comparators[0], e.ops[0]
                    if isinstance(op, (ast.Eq, ast.Is, ast.NotEq, ast.IsNot)):
                        c = r_ if is_name(l_, mparam) else (l_ if is_name(r_, mparam) else None)
                        if c is not None and isinstance(c, ast.Constant) and isinstance(c.value, str):
                            return (c.value == word) == isinstance(op, (ast.Eq, ast.Is))
                        # [..].indexOf(modifier) != -1
                        if isinstance(l_, ast.Call) and isinstance(l_.func, ast.Attribute) and l_.func.attr in ('indexOf', 'index') and len(l_.args) == 1 and is_name(l_.args[0], mparam) and isinstance(r_, (ast.Constant, ast.UnaryOp)) and node_text(r_).replace(' ', '') == '-1':
                            mb = member(l_.func.value)
                            return None if mb is None else (mb == isinstance(op, (ast.NotEq, ast.IsNot)))
                    if isinstance(op, (ast.In, ast.NotIn)) and is_name(l_, mparam):
                        mb = member(r_)
                        return None if mb is None else (mb == isinstance(op, ast.In))
                    if isinstance(op, (ast.GtE, ast.Gt)) and isinstance(l_, ast.Call) and isinstance(l_.func, ast.Attribute) and l_.func.attr == 'indexOf' and len(l_.args) == 1 and is_name(l_.args[0], mparam):
                        txt_ = node_text(r_).replace(' ', '')
                        if (isinstance(op, ast.GtE) and txt_ == '0') or (isinstance(op, ast.Gt) and txt_ == '-1'):
                            return member(l_.func.value)
                if isinstance(e, ast.Call) and isinstance(e.func, ast.Attribute) and e.func.attr == 'includes' and len(e.args) == 1 and is_name(e.args[0], mparam):
                    return member(e.func.value)
                return None
            outs = []
            for q in hps:
                vs = [pathsem.eval_cond(t_, leaf) for t_, _ in q.conds]
                if any(v is None for v in vs):
                    unknown = True
                if pathsem.consistent(q, leaf):
                    sv = [v_ for t_, v_ in q.stores if dotted(t_) == 'self.has_header']
                    outs.append(sv[-1].value if sv and isinstance(sv[-1], ast.Constant) else (None if not sv else '?'))
            words[word] = outs[0] if len(set(map(repr, outs))) == 1 else '?'
        if unknown or '?' in words.values():
            rep.undecided('modifier vocabulary', hq, 'a test of handle_query_modifier is not a recognised test of the modifier word ({})'.format(words))
        else:
            wrong = {k: v for k, v in words.items() if want.get(k) != v}
            rep.decide(not wrong, 'modifier vocabulary', hq, 'header(s) -> True, noheader(s) -> False, anything else leaves the flag alone', 'WITH modifier vocabulary: {} (must be {})'.format(wrong, {k: want.get(k) for k in wrong}))
    # get_header returns the pre-read first record iff has_header; get_record replays it iff the flag is set
    gh = [m for m in it.body if isinstance(m, ast.FunctionDef) and m.name == 'get_header'][0]
    gps = pathsem.paths(gh)
    if gps is None:
        rep.undecided('get_header', gh, 'get_header is not summarisable as paths')
    else:
        okh, n_seen = True, 0
        for hv in (True, False):
            def leaf2(e, hv=hv):
                if dotted(e) == 'self.has_header':
                    return hv
                return None
            for q in gps:
                if not pathsem.consistent(q, leaf2):
                    continue
                if any(pathsem.eval_cond(t_, leaf2) is None for t_, _ in q.conds):
                    okh = None
                    break
                n_seen += 1
                val = q.value if q.kind == 'return' else None
                if hv:
                    okh = okh and val is not None and dotted(val) == 'self.first_record'
                else:
                    okh = okh and (val is None or is_none(val))
            if okh is None:
                break
        if okh is None:
            rep.undecided('get_header', gh, 'get_header depends on something else than has_header')
        else:
            rep.decide(bool(okh) and n_seen >= 2, 'get_header', gh, 'header = first record iff has_header', 'get_header does not return the first record exactly when has_header is set')


def _modifier_model(cx, port, p, it):
    """handle_query_modifier evaluated for the words header, headers, noheader, noheaders, HEADER and another word from every state of
    (has_header, first_record_should_be_emitted): '' / problem / None (outside the abstract interpreter)"""
    from .. import absexec as AX
    hq = [m for m in it.body if isinstance(m, ast.FunctionDef) and m.name == 'handle_query_modifier']
    if len(hq) != 1 or len(hq[0].args.args) != 2:
        return None
    try:
        for word in ('header', 'headers', 'noheader', 'noheaders', 'HEADER', 'separator'):
            for h0 in (False, True):
                for e0 in (False, True):
                    selfv = AX.Abs('Self')
                    init = {'has_header': h0, 'first_record_should_be_emitted': e0}

                    def on_attr(ex, node, obj, attr, init=init):
                        if obj is selfv and attr in init:
                            return init[attr]
                        return AX.NOT_HANDLED
                    ex = AX.Explorer(p, 'rbql_csv', on_attr=on_attr, max_choices=1)
                    runs, cut = ex.explore(hq[0], [selfv, word], cls='CSVRecordIterator')
                    if cut or len(runs) != 1 or runs[0].outcome[0] != 'return':
                        return None
                    st = runs[0].state
                    got = (st.get((selfv.uid, 'has_header'), h0), st.get((selfv.uid, 'first_record_should_be_emitted'), e0))
                    want = (True, False) if word in ('header', 'headers') else ((False, True) if word in ('noheader', 'noheaders') else (h0, e0))
                    if got != want:
                        return 'WITH ({}) on a reader with has_header = {}, first_record_should_be_emitted = {} leaves (has_header, first_record_should_be_emitted) = {} instead of {}: the first line would be {}'.format(word, h0, e0, got, want, 'processed as data although it is the header' if want[0] else 'dropped although it is data')
    except (Undecided, KeyError, IndexError, TypeError, AttributeError, ValueError) as e_:
        import os
        if os.environ.get('RBQL_VERIF_DEBUG'):
            print('modifier model gave up:', type(e_).__name__, e_)
        return None
    return ''


def _blocks(fd):
    out = [fd.body]
    for n in walk_no_nested(fd):
        for fld in ('body', 'orelse', 'finalbody'):
            b = getattr(n, fld, None)
            if isinstance(b, list) and b and n is not fd and isinstance(b[0], ast.stmt):
                out.append(b)
    return out


def rule_rd_replay(cx, rep, port):
    """the pre-read first record is replayed exactly once, first, iff first_record_should_be_emitted"""
    p = cx.port(port)
    if port == 'py':
        fd = p.func('rbql_csv', 'CSVRecordIterator.get_record')
        first = fd.body[0]
        ok = isinstance(first, ast.If) and dotted(first.test) == 'self.first_record_should_be_emitted' and len(first.body) == 2 and isinstance(first.body[0], ast.Assign) and is_false(first.body[0].value) and isinstance(first.body[1], ast.Return) and dotted(first.body[1].value) == 'self.first_record'
        rep.decide(ok, 'replay', first, 'if the flag is set: clear it and return the pre-read first record', 'get_record does not start with "if first_record_should_be_emitted: clear flag; return first_record"')
        init = p.func('rbql_csv', 'CSVRecordIterator.__init__')
        pre = [n for n in walk_no_nested(init) if isinstance(n, ast.Assign) and dotted(n.targets[0]) == 'self.first_record' and isinstance(n.value, ast.Call) and call_name(n.value) == 'self.get_record']
        em = [n for n in walk_no_nested(init) if isinstance(n, ast.Assign) and dotted(n.targets[0]) == 'self.first_record_should_be_emitted']
        ok2 = len(pre) == 1 and any(e.pos > pre[0].pos and negated(e.value) is not None for e in em) and any(e.pos < pre[0].pos and is_false(e.value) for e in em)
        rep.decide(ok2, 'pre-read', pre[0] if pre else init, 'first record is pre-read with the replay flag off, then the flag becomes `not has_header`', 'the constructor does not pre-read the first record with the replay flag off and then set it to `not has_header`')
    else:
        fd = p.func('rbql_csv', 'CSVRecordIterator.try_resolve_next_record')
        # for each of the four states of (replay flag, pre-read complete): the record handed out is the pre-read one with the flag
        # cleared exactly when both hold, otherwise the next queued record and the flag untouched (path summaries)
        from .. import pathsem
        ps = pathsem.paths(fd)
        if ps is None:
            rep.undecided('replay', fd, 'try_resolve_next_record is not summarisable as paths')
        else:
            verdict, why, n_first, n_queue = True, '', 0, 0
            for F in (True, False):
                for H in (True, False):
                    def leaf(e, F=F, H=H):
                        d = dotted(e)
                        if d == 'self.first_record_should_be_emitted':
                            return F
                        if d == 'self.header_preread_complete':
                            return H
                        return None
                    for q in ps:
                        if not pathsem.consistent(q, leaf):
                            continue
                        rec = [v for k, v in q.env.items() if dotted(v) == 'self.first_record' or (isinstance(v, ast.Call) and (call_name(v) or '').endswith('.dequeue'))]
                        if not rec:
                            continue       # no record chosen on this path (nobody is waiting)
                        took_first = any(dotted(v) == 'self.first_record' for v in rec)
                        took_queue = any(isinstance(v, ast.Call) for v in rec)
                        cleared = any(dotted(t_) == 'self.first_record_should_be_emitted' and is_false(v) for t_, v in q.stores)
                        if F and H:
                            n_first += 1
                            if not took_first or took_queue or not cleared:
                                verdict, why = False, 'with the replay flag set after the pre-read, the pre-read record is not handed out with the flag cleared'
                        else:
                            n_queue += 1
                            if took_first or cleared:
                                verdict, why = False, 'the pre-read record is replayed (or the flag cleared) although the flag is {} / the pre-read is {}'.format('set' if F else 'not set', 'complete' if H else 'not complete')
            if verdict and not (n_first and n_queue):
                rep.undecided('replay', fd, 'paths choosing the record not recognised')
            else:
                rep.decide(verdict, 'replay', fd, 'after the pre-read, the first record is replayed once iff the flag is set', 'the pre-read first record is not replayed exactly once iff first_record_should_be_emitted: ' + why)
        pr = p.func('rbql_csv', 'CSVRecordIterator.preread_first_record')
        cp = [n for n in walk_no_nested(pr) if isinstance(n, ast.Assign) and dotted(n.targets[0]) == 'self.first_record']
        rep.decide(len(cp) >= 1, 'pre-read', pr, 'first record is pre-read once', 'first record pre-read not found')


# ------------------------------------------------------------------------------------------------ javascript chunk pipeline
def _jschunk_model(cx, rep, p, tier):
    r_ = _jschunk_model_impl(cx, rep, p, tier)
    return r_


def _jschunk_stream_verdict(cx, p):
    """None: the abstract stream model cannot evaluate the reader; else (ok, message)"""
    key = '_jschunk_verdict'
    if key not in cx.__dict__:
        from ..core import Report
        tmp = Report('tmp', 'quick')
        ok = _jschunk_model_impl(cx, tmp, p, 'quick')
        if not ok:
            cx.__dict__[key] = None
        else:
            v = [o for o in tmp.obs if o.key == 'complete lines']
            cx.__dict__[key] = (v[0].verdict == 'HOLDS', v[0].detail) if v else None
    return cx.__dict__[key]


def _jschunk_model_impl(cx, rep, p, tier):
    """the JS stream reader decided on an abstract stream: texts over {CR, LF, x} (x = any other character) of bounded length, cut into
    chunks in every possible way, are fed to process_data_stream_chunk / process_data_stream_end (and whole to process_data_bulk); the
    lines handed to process_line must be the lines of the text (breaks CRLF | CR | LF, a final line without a break included, no
    empty line after a final break) whatever the cut.  True when the exploration could be carried out."""
    import itertools
    import re as _re
    from .. import absexec as AX
    it = p.cls('rbql_csv', 'CSVRecordIterator')
    ms = {m.name: m for m in it.body if isinstance(m, ast.FunctionDef)}
    if not {'process_data_stream_chunk', 'process_data_stream_end', 'process_data_bulk'} <= set(ms):
        return False
    max_len = 4 if tier == 'thorough' else 3

    def split(text):
        return _re.split('\r\n|\r|\n', text)

    def run(chunks, bulk):
        selfv = AX.Abs('Self')
        decoder, agg = AX.Abs('Decoder'), AX.Abs('Agg')
        init = {'partially_decoded_line': '', 'partially_decoded_line_ends_with_cr': False, 'decoder': decoder, 'encoding': 'utf-8', 'line_aggregator': agg, 'input_exhausted': False}
        lines, errors = [], []

        def on_attr(ex, node, obj, attr):
            if obj is selfv and attr in init:
                return init[attr]
            return AX.NOT_HANDLED

        def on_call(ex, node, fname, recv, args):
            short = node.func.attr if isinstance(node.func, ast.Attribute) else fname
            if recv is decoder and short == 'decode':
                return args[0].props['text'] if args else ''
            if isinstance(recv, AX.Abs) and recv.kind == 'Chunk' and short == 'toString':
                return recv.props['text']
            if short == 'split_lines' and len(args) == 1 and isinstance(args[0], str):
                return split(args[0])
            if recv is selfv and short == 'process_line' and len(args) == 1:
                lines.append(args[0])
                return None
            if recv is selfv and short in ('try_resolve_next_record', 'process_record_line'):
                return None
            if recv is selfv and short == 'store_or_propagate_exception':
                errors.append(args[0] if args else None)
                return None
            if recv is agg and short == 'is_inside_multiline_record':
                return False
            if fname == 'Buffer.from' and args:
                return AX.Abs('Chunk', text=args[0]) if isinstance(args[0], str) else args[0]
            if fname == 'Buffer.compare':
                return 0
            if short.endswith('Error'):
                return AX.Abs(short)
            return AX.NOT_HANDLED
        ex = AX.Explorer(p, 'rbql_csv', on_call=on_call, on_attr=on_attr, max_choices=1)
        ex.cls = 'CSVRecordIterator'
        ex._script, ex._pos, ex.steps, ex.depth = [], 0, 0, 0
        ex.run = AX.Run()
        try:
            if bulk:
                ex.call_fd(ms['process_data_bulk'], [selfv, AX.Abs('Chunk', text=''.join(chunks))])
            else:
                for c in chunks:
                    ex.call_fd(ms['process_data_stream_chunk'], [selfv, AX.Abs('Chunk', text=c)])
                ex.call_fd(ms['process_data_stream_end'], [selfv])
        except AX.Raised as r:
            return lines, 'raises {}'.format(r.value.kind if isinstance(r.value, AX.Abs) else r.value)
        return lines, ('reports an error' if errors else None)

    def show(t):
        return ''.join({'\r': '<CR>', '\n': '<LF>'}.get(c, c) for c in t)
    bad_stream = bad_bulk = None
    n = 0
    try:
        for ln in range(0, max_len + 1):
            for chars in itertools.product('x\r\n', repeat=ln):
                text = ''.join(chars)
                pieces = split(text)
                want = pieces[:-1] + ([pieces[-1]] if pieces[-1] else [])
                if bad_bulk is None:
                    got, err = run([text], True)
                    n += 1
                    if err or got != want:
                        bad_bulk = 'bulk reading of `{}` {} instead of giving the lines [{}]'.format(show(text), err or 'gives [{}]'.format(', '.join(repr(show(x)) for x in got)), ', '.join(repr(show(x)) for x in want))
                for cuts in itertools.product((0, 1), repeat=max(ln - 1, 0)):
                    chunks, cur = [], ''
                    for i, ch in enumerate(text):
                        cur += ch
                        if i < ln - 1 and cuts[i]:
                            chunks.append(cur)
                            cur = ''
                    if cur:
                        chunks.append(cur)
                    if bad_stream is not None:
                        continue
                    got, err = run(chunks, False)
                    n += 1
                    if err or got != want:
                        bad_stream = 'the stream `{}` cut into chunks {} {} instead of giving the lines [{}]'.format(show(text), ' | '.join(show(c) for c in chunks) or '(no chunk)', err or 'gives [{}]'.format(', '.join(repr(show(x)) for x in got)), ', '.join(repr(show(x)) for x in want))
    except (Undecided, AX.Cut, AX._NeedChoice, KeyError, IndexError, TypeError) as e_:
        import os
        if os.environ.get('RBQL_VERIF_DEBUG'):
            print('RD-JSCHUNK model gave up:', type(e_).__name__, e_)
        return False
    fd = ms['process_data_stream_chunk']
    good = 'every text over {{CR, LF, other}} of up to {} characters gives the same lines however it is cut into chunks ({} abstract runs)'.format(max_len, n)
    for k in ('carry-over prepend', 'carry-over save', 'carry-over stores', 'complete lines', 'CRLF across chunks', 'leading LF test', 'trailing CR flag'):
        rep.decide(bad_stream is None, k, fd, good, bad_stream or '')
    rep.decide(bad_bulk is None, 'bulk lines', ms['process_data_bulk'], 'bulk reading gives the lines of the text', bad_bulk or '')
    rep.decide(bad_bulk is None, 'bulk trailing line', ms['process_data_bulk'], 'only the one empty string after the final line break is dropped', bad_bulk or '')
    return True


def rule_rd_jschunk(cx, rep, port='js'):
    p = cx.js
    fd = p.func('rbql_csv', 'CSVRecordIterator.process_data_stream_chunk')
    if _jschunk_model(cx, rep, p, getattr(cx, 'tier', 'quick')):
        _jschunk_rest(cx, rep, p, lines_decided=True)
        return
    body = list(walk_no_nested(fd))
    reference = '''
line_starts_with_lf = len(decoded_string) and decoded_string[0] == '\\n'
first_line_index = 1 if line_starts_with_lf and self.partially_decoded_line_ends_with_cr else 0
self.partially_decoded_line_ends_with_cr = len(decoded_string) and decoded_string[len(decoded_string) - 1] == '\\r'
lines = csv_utils.split_lines(decoded_string)
lines[0] = self.partially_decoded_line + lines[0]
assert first_line_index == 0 or len(lines[0]) == 0
self.partially_decoded_line = lines.pop()
for i in range(first_line_index, len(lines)):
    self.process_line(lines[i])
'''
    if contains_stmts(fd, reference):
        for k in ('carry-over prepend', 'carry-over save', 'carry-over stores', 'complete lines', 'CRLF across chunks', 'leading LF test', 'trailing CR flag'):
            rep.holds(k, fd, 'chunk pipeline is alpha-equivalent to the reference schema (prepend carry-over, keep last line, process complete lines once in order, CRLF flag)')
        _jschunk_rest(cx, rep, p)
        return
    # lines = split_lines(decoded)
    sp = [n for n in body if isinstance(n, ast.Assign) and isinstance(n.value, ast.Call) and (call_name(n.value) or '').endswith('split_lines')]
    if len(sp) != 1:
        raise Undecided('process_data_stream_chunk: split_lines call not found', fd)
    lines = dotted(sp[0].targets[0])
    # lines[0] = partial + lines[0]
    pre = [n for n in body if isinstance(n, ast.Assign) and isinstance(n.targets[0], ast.Subscript) and dotted(n.targets[0].value) == lines and isinstance(n.targets[0].slice, ast.Constant) and n.targets[0].slice.value == 0]
    okpre = len(pre) == 1 and isinstance(pre[0].value, ast.BinOp) and isinstance(pre[0].value.op, ast.Add) and dotted(pre[0].value.left) == 'self.partially_decoded_line' and node_text(pre[0].value.right) == lines + '[0]'
    rep.decide(okpre, 'carry-over prepend', pre[0] if pre else fd, 'the carried partial line is prepended to the first line of the chunk', 'the partial line carried from the previous chunk is not prepended (in this order) to the first line of the new chunk')
    # partial = lines.pop()
    pop = [n for n in body if isinstance(n, ast.Assign) and dotted(n.targets[0]) == 'self.partially_decoded_line' and isinstance(n.value, ast.Call) and isinstance(n.value.func, ast.Attribute) and n.value.func.attr == 'pop' and dotted(n.value.func.value) == lines and not n.value.args]
    rep.decide(len(pop) == 1 and (not pre or pop[0].pos > pre[0].pos), 'carry-over save', pop[0] if pop else fd, 'the last (possibly incomplete) line is kept for the next chunk', 'the last, possibly incomplete line of the chunk is not kept as the carry-over (lines.pop())')
    stores = [n for n in body if isinstance(n, (ast.Assign, ast.AugAssign)) and dotted(n.targets[0] if isinstance(n, ast.Assign) else n.target) == 'self.partially_decoded_line']
    rep.decide(len(stores) == 1, 'carry-over stores', stores[-1] if stores else fd, 'single store to the carry-over per chunk', 'the carry-over is assigned {} times per chunk'.format(len(stores)))
    # loop: for i in range(first_line_index, len(lines)): process_line(lines[i])
    loops = [n for n in body if isinstance(n, ast.For)]
    okloop = False
    if len(loops) == 1 and isinstance(loops[0].iter, ast.Call) and dotted(loops[0].iter.func) == 'range':
        a, b = loops[0].iter.args
        okloop = is_name(a, 'first_line_index') and node_text(b) == 'len({})'.format(lines) and (not pop or loops[0].pos > pop[0].pos)
        calls = [c for c in ast.walk(loops[0]) if isinstance(c, ast.Call) and call_name(c) == 'self.process_line']
        okloop = okloop and len(calls) == 1 and node_text(calls[0].args[0]) == '{}[{}]'.format(lines, loops[0].target.id)
    if len(loops) == 1 and not okloop and isinstance(loops[0].target, ast.Name):
        it_ = loops[0].iter
        tail = (isinstance(it_, ast.Subscript) and dotted(it_.value) == lines and isinstance(it_.slice, ast.Slice) and is_name(it_.slice.lower, 'first_line_index') and it_.slice.upper is None and it_.slice.step is None) or (isinstance(it_, ast.Call) and isinstance(it_.func, ast.Attribute) and it_.func.attr == 'slice' and dotted(it_.func.value) == lines and len(it_.args) == 1 and is_name(it_.args[0], 'first_line_index'))
        calls = [c for c in ast.walk(loops[0]) if isinstance(c, ast.Call) and call_name(c) == 'self.process_line']
        okloop = tail and len(calls) == 1 and is_name(calls[0].args[0], loops[0].target.id) and (not pop or loops[0].pos > pop[0].pos)
    rep.decide(okloop, 'complete lines', loops[0] if loops else fd, 'every complete line is processed once, in order', 'complete lines of the chunk are not all processed once, in order, after the carry-over was removed')
    # CR/LF across chunks
    fi = [n for n in body if isinstance(n, ast.Assign) and is_name(n.targets[0], 'first_line_index')]
    okfi = len(fi) == 1 and isinstance(fi[0].value, ast.IfExp) and isinstance(fi[0].value.test, ast.BoolOp) and isinstance(fi[0].value.test.op, ast.And) and 'self.partially_decoded_line_ends_with_cr' in {dotted(x) for x in ast.walk(fi[0].value.test)} and isinstance(fi[0].value.body, ast.Constant) and fi[0].value.body.value == 1 and isinstance(fi[0].value.orelse, ast.Constant) and fi[0].value.orelse.value == 0
    rep.decide(okfi, 'CRLF across chunks', fi[0] if fi else fd, 'a chunk starting with LF right after a chunk ending in CR skips the empty first line', 'a CRLF pair split between two chunks is not recognised as one line break')
    lf = [n for n in body if isinstance(n, ast.Assign) and is_name(n.targets[0], 'line_starts_with_lf')]
    oklf = len(lf) == 1 and "== '\\n'" in node_text(lf[0].value) and '[0]' in node_text(lf[0].value)
    rep.decide(oklf, 'leading LF test', lf[0] if lf else fd, 'tests the first decoded character for LF', 'the leading-LF test does not look at the first decoded character')
    cr = [n for n in body if isinstance(n, ast.Assign) and dotted(n.targets[0]) == 'self.partially_decoded_line_ends_with_cr']
    okcr = len(cr) == 1 and "== '\\r'" in node_text(cr[0].value) and '- 1]' in node_text(cr[0].value) and (not fi or cr[0].pos > fi[0].pos)
    rep.decide(okcr, 'trailing CR flag', cr[0] if cr else fd, 'flag := chunk ends with CR, updated after the previous value was used', 'the ends-with-CR flag is not recomputed from the last character of every chunk after its previous value was consumed')
    _jschunk_rest(cx, rep, p)


def _jschunk_bulk_shape(cx, rep, p):
    # bulk path: trailing empty line dropped, all lines processed
    bulk = p.func('rbql_csv', 'CSVRecordIterator.process_data_bulk')
    bl = [n for n in walk_no_nested(bulk) if isinstance(n, ast.For)]
    okb = len(bl) == 1 and any(isinstance(c, ast.Call) and call_name(c) == 'self.process_line' for c in ast.walk(bl[0]))
    rep.decide(okb, 'bulk lines', bl[0] if bl else bulk, 'bulk reading processes every line', 'bulk reading does not process every line')
    # the empty string after the final line break is dropped once: further empty lines at the end are records of their own
    pops = [c for c in walk_no_nested(bulk) if isinstance(c, ast.Call) and isinstance(c.func, ast.Attribute) and c.func.attr == 'pop' and not c.args]
    if not pops:
        # the final line break may be cut off the text before splitting instead: exactly one break (LF, CR or CRLF), never a run of them
        from .. import regexlang as R
        trims = [c for c in walk_no_nested(bulk) if isinstance(c, ast.Call) and isinstance(c.func, ast.Attribute) and c.func.attr == 'replace' and len(c.args) == 2 and isinstance(c.args[0], ast.Call) and dotted(c.args[0].func) == '__regex__' and isinstance(c.args[1], ast.Constant) and c.args[1].value == '']
        trims = [c for c in trims if c.args[0].args[0].value.endswith('$')]
        ws = [c for c in walk_no_nested(bulk) if isinstance(c, ast.Call) and isinstance(c.func, ast.Attribute) and c.func.attr in ('trimEnd', 'trimRight', 'trim') and not c.args
              and any(isinstance(pc, ast.Call) and (call_name(pc) or '').endswith('split_lines') and any(y is c for a in pc.args for y in ast.walk(a)) for pc in walk_no_nested(bulk))]
        if ws:
            rep.violated('bulk trailing line', ws[0], 'the text is cut with {}() before it is split into lines: every trailing blank, TAB and line break goes, so trailing empty fields of the last record and trailing empty records are lost in bulk mode only'.format(ws[0].func.attr))
        elif not trims:
            rep.undecided('bulk trailing line', bulk, 'how the empty string after the final line break is dropped was not recognised')
        for c in trims:
            pat = c.args[0].args[0].value
            try:
                lang = R.Lang(pat[:-1], flavour='js')
                many = [w for w in ('\n\n', '\r\n\r\n', '\r\r') if R.accepts(lang, w)]
                one = [w for w in ('\n', '\r', '\r\n') if R.accepts(lang, w)]
            except R.Unsupported as e:
                rep.undecided('bulk trailing line', c, str(e))
                continue
            if many:
                rep.violated('bulk trailing line', c, 'the text is trimmed with `{}`, which removes a whole run of line breaks ({!r}): a table whose last records are empty (single-column input ending in blank lines) loses them in bulk mode, while stream mode keeps them'.format(pat, many[0]))
            elif len(one) == 3:
                rep.holds('bulk trailing line', c, 'exactly one final line break is removed before splitting')
            else:
                rep.undecided('bulk trailing line', c, 'trimming pattern `{}` does not cover LF, CR and CRLF'.format(pat))
    for c in pops:
        par = c
        while par is not None and not isinstance(par, (ast.While, ast.For, ast.If, ast.FunctionDef)):
            par = getattr(par, 'parent', None)
        if isinstance(par, (ast.While, ast.For)):
            rep.violated('bulk trailing line', c, 'every trailing empty line is removed in a loop: a table whose last records are empty (single-column input ending in blank lines) loses them in bulk mode, while stream mode keeps them')
        elif isinstance(par, ast.If):
            rep.holds('bulk trailing line', c, 'only the one empty string after the final line break is dropped')
        else:
            rep.undecided('bulk trailing line', c, 'unconditional pop of the last line')


def _queue_model(cx, rep, p):
    """the producer/consumer queue of the JS reader decided on every sequence of at most seven enqueue / dequeue operations: dequeue hands
    out the records in the order they were enqueued and null exactly when none is waiting.  True when the exploration could be done."""
    import itertools
    from .. import absexec as AX
    q = p.cls('rbql_csv', 'RecordQueue', required=False)
    if q is None:
        return False
    ms = {m.name: m for m in q.body if isinstance(m, ast.FunctionDef)}
    init, enq, deq = ms.get('__init__') or ms.get('constructor'), ms.get('enqueue'), ms.get('dequeue')
    if init is None or enq is None or deq is None:
        return False
    bad = None
    n = 0
    try:
        for ln in range(1, 8):
            for ops in itertools.product('ED', repeat=ln):
                selfv = AX.Abs('Self')
                ex = AX.Explorer(p, 'rbql_csv', max_choices=1)
                ex.cls = 'RecordQueue'
                ex._script, ex._pos, ex.steps, ex.depth = [], 0, 0, 0
                ex.run = AX.Run()
                ex.call_fd(init, [selfv])
                waiting, k = [], 0
                for i, op in enumerate(ops):
                    if op == 'E':
                        k += 1
                        r = AX.Abs('Rec', id='r%d' % k)
                        waiting.append(r)
                        ex.call_fd(enq, [selfv, r])
                    else:
                        got = ex.call_fd(deq, [selfv])
                        want = waiting.pop(0) if waiting else None
                        if got is not want and bad is None:
                            bad = 'after the operations {} dequeue() gives {} instead of {}'.format(' '.join('enqueue' if o == 'E' else 'dequeue' for o in ops[:i + 1]), got.props['id'] if isinstance(got, AX.Abs) else repr(got), want.props['id'] if want is not None else 'null')
                n += 1
                if bad:
                    break
            if bad:
                break
    except (Undecided, AX.Cut, AX._NeedChoice, AX.Raised, KeyError, IndexError, TypeError) as e_:
        import os
        if os.environ.get('RBQL_VERIF_DEBUG'):
            print('queue model gave up:', type(e_).__name__, e_)
        return False
    for k_ in ('record queue', 'record queue enqueue', 'record queue refill'):
        rep.decide(bad is None, k_, deq, 'records leave the queue in arrival order ({} operation sequences)'.format(n), 'the producer/consumer queue does not deliver records in arrival order: ' + (bad or ''))
    return True


def _jschunk_rest(cx, rep, p, lines_decided=False):
    if not lines_decided:
        _jschunk_bulk_shape(cx, rep, p)
    # process_line -> process_line_polymorphic dispatch
    init = p.func('rbql_csv', 'CSVRecordIterator.__init__')
    disp = [n for n in walk_no_nested(init) if isinstance(n, ast.Assign) and dotted(n.targets[0]) == 'self.process_line_polymorphic']
    okd = len(disp) == 1 and isinstance(disp[0].value, ast.IfExp) and "== 'quoted_rfc'" in node_text(disp[0].value.test) and dotted(disp[0].value.body) == 'self.process_partial_rfc_record_line' and dotted(disp[0].value.orelse) == 'self.process_record_line_simple'
    rep.decide(okd, 'policy dispatch', disp[0] if disp else init, 'quoted_rfc -> multi-line aggregation, otherwise per-line', 'line processing is not dispatched as quoted_rfc -> multi-line aggregation / otherwise per-line')
    # queue is FIFO
    if _queue_model(cx, rep, p):
        return
    q = p.cls('rbql_csv', 'RecordQueue')
    deq = [m for m in q.body if isinstance(m, ast.FunctionDef) and m.name == 'dequeue'][0]
    rev = [c for c in ast.walk(deq) if isinstance(c, ast.Call) and isinstance(c.func, ast.Attribute) and c.func.attr == 'reverse']
    popc = [c for c in ast.walk(deq) if isinstance(c, ast.Call) and isinstance(c.func, ast.Attribute) and c.func.attr in ('pop', 'shift')]
    okq = (len(rev) == 1 and popc and all(c.func.attr == 'pop' and dotted(c.func.value) == 'self.pull_stack' for c in popc)) or (not rev and len(popc) == 1 and popc[0].func.attr == 'shift')
    rep.decide(okq, 'record queue', deq, 'records leave the queue in arrival order', 'the producer/consumer queue does not deliver records in arrival order')
    enq = [m for m in q.body if isinstance(m, ast.FunctionDef) and m.name == 'enqueue'][0]
    pushes = [c for c in ast.walk(enq) if isinstance(c, ast.Call) and isinstance(c.func, ast.Attribute) and c.func.attr in ('push', 'unshift', 'splice')]
    targets = sorted({dotted(c.func.value) for c in pushes})
    if rev:
        oke = targets == ['self.push_stack'] and len(pushes) == 1 and pushes[0].func.attr == 'push'
        rep.decide(oke, 'record queue enqueue', enq, 'new records only ever go onto the push stack', 'enqueue() also writes to {}: a record can overtake older records still waiting on the push stack, so records come out reordered under some chunk arrival timings'.format([t for t in targets if t != 'self.push_stack'] or targets))
    if rev:
        # the reversal (refill) is reachable only through the "pull stack is empty" outcome of a test on its length
        gq = cfgmod.CFG(deq)
        rn = [n for n in gq.nodes if cfgmod.node_contains(n, lambda x: x is rev[0])]
        empties = []
        for n in gq.nodes:
            if n.kind != 'test':
                continue
            e, neg = n.ast, False
            while negated(e) is not None:
                e, neg = negated(e), not neg
            if isinstance(e, ast.Call) and dotted(e.func) == 'len' and e.args and dotted(e.args[0]) == 'self.pull_stack':
                empties.append((n, 'T' if neg else 'F'))
            elif isinstance(e, ast.Compare) and len(e.ops) == 1 and isinstance(e.left, ast.Call) and dotted(e.left.func) == 'len' and e.left.args and dotted(e.left.args[0]) == 'self.pull_stack' and isinstance(e.comparators[0], ast.Constant) and e.comparators[0].value == 0:
                lab = {ast.Eq: 'T', ast.NotEq: 'F', ast.Gt: 'F', ast.LtE: 'T'}.get(type(e.ops[0]))
                if lab:
                    empties.append((n, lab if not neg else ('F' if lab == 'T' else 'T')))
        if not rn or not empties:
            rep.undecided('record queue refill', deq, 'emptiness test of the pull stack / refill not recognised')
        else:
            allowed = {(id(n), lab) for n, lab in empties}
            tests = {id(n) for n, _ in empties}
            other_way = gq.exists_path(gq.entry, lambda n: n is rn[0], edge_ok=lambda a, b, lab: not (id(a) in tests and (id(a), lab) in allowed))
            rep.decide(not other_way, 'record queue refill', rev[0], 'the pull stack is refilled (reversed push stack) only when it is empty', 'the pull stack is refilled while it still holds older records')


def _private_helpers(cls, root_name):
    """methods of cls reachable from root_name that are called from nowhere else (helpers the root was split into)"""
    methods_ = {m.name: m for m in cls.body if isinstance(m, ast.FunctionDef)}
    callers = {}
    for m in methods_.values():
        for c in ast.walk(m):
            if isinstance(c, ast.Attribute) and isinstance(c.value, ast.Name) and c.value.id == 'self' and c.attr in methods_ and c.attr != m.name:
                callers.setdefault(c.attr, set()).add(m.name)
    homes = {root_name}
    grew = True
    while grew:
        grew = False
        for name_, cs_ in callers.items():
            if name_ not in homes and cs_ and cs_ <= homes:
                homes.add(name_)
                grew = True
    return homes, methods_


def rule_rd_chunkstate(cx, rep, port='js'):
    """information flow: what the chunk handler remembers about a chunk (attributes it assigns from the chunk's data) may be read only
    by the chunk handler itself, its end-of-stream counterpart and the constructor.  Read anywhere else, line processing depends on
    where the stream was cut into chunks."""
    p = cx.js
    it = p.cls('rbql_csv', 'CSVRecordIterator')
    homes, methods_ = _private_helpers(it, 'process_data_stream_chunk')
    if 'process_data_stream_chunk' not in methods_:
        raise Undecided('anchor vanished: CSVRecordIterator.process_data_stream_chunk', it)
    chunk_state = {}
    for name_ in sorted(homes):
        m = methods_[name_]
        tainted = {a.arg for a in m.args.args if a.arg not in ('self', 'this')}
        grew = True
        assigns = [n for n in walk_no_nested(m) if isinstance(n, (ast.Assign, ast.AugAssign))]
        while grew:
            grew = False
            for n in assigns:
                val = n.value
                if not (names_in(val) & tainted):
                    continue
                tgts = n.targets if isinstance(n, ast.Assign) else [n.target]
                for t in tgts:
                    for x in ast.walk(t):
                        if isinstance(x, ast.Name) and isinstance(x.ctx, ast.Store) and x.id not in tainted:
                            tainted.add(x.id)
                            grew = True
        for n in assigns:
            tgts = n.targets if isinstance(n, ast.Assign) else [n.target]
            for t in tgts:
                for x in ([t] + (list(t.elts) if isinstance(t, (ast.Tuple, ast.List)) else [])):
                    d = dotted(x) or ''
                    if d.startswith('self.') and d.count('.') == 1 and (names_in(n.value) & tainted):
                        chunk_state.setdefault(d[5:], n)
    if not chunk_state:
        rep.undecided('chunk state', methods_['process_data_stream_chunk'], 'the chunk handler stores nothing derived from the chunk (carry-over of the unfinished line not found)')
        return
    allowed_readers = set(homes) | {'process_data_stream_end', 'constructor', '__init__', 'init'}
    allowed_readers |= _private_helpers(it, 'process_data_stream_end')[0]
    bad = []
    for attr, store in sorted(chunk_state.items()):
        for name_, m in methods_.items():
            if name_ in allowed_readers:
                continue
            for x in ast.walk(m):
                if isinstance(x, ast.Attribute) and x.attr == attr and isinstance(x.ctx, ast.Load) and is_name(x.value, 'self'):
                    bad.append((attr, name_, x, store))
    for attr, name_, x, store in bad[:3]:
        rep.violated('chunk state read in {}'.format(name_), x, 'self.{} is assigned from the data of the current chunk (`{}`) and read in {}(): what that method does with a line depends on where the stream was cut into chunks'.format(attr, node_text(store, 100), name_))
    if not bad:
        rep.holds('chunk state', methods_['process_data_stream_chunk'], 'state derived from a chunk ({}) is read only by the chunk handler, the end-of-stream handler and the constructor'.format(', '.join(sorted(chunk_state))))
