"""GS rules (C16): absence of shared mutable state in the Python library modules."""
import ast

from ..core import Undecided, node_text
from ..idioms import MUTATORS, copy_source, is_name
from ..model import PY_LIBRARY_MODULES, call_name, dotted, enclosing_func, names_in, walk_no_nested

GLOBAL_ALLOW = {
    ('rbql_engine', 'debug_mode'): 'debug flag: only alters how errors are wrapped; written only by set_debug_mode()',
    ('rbql_csv', 'debug_mode'): 'debug flag of the CSV front-end; written only by set_debug_mode()',
}
PROCESS_EFFECT_ALLOW = {
    ('rbql_csv', 'CSVWriter.finish', 'sys.stdout.close'): 'reachable only after a broken pipe on stdout (documented work-around for bpo-11380)',
}
IMMUTABLE_CALLS = {'namedtuple', 're.compile', 'frozenset', 'tuple', 'str', 'int', 'float', 'bool', 'bytes', 'object', 'len', 'min', 'max', 'ord', 'chr', 'os.path.join', 'os.path.expanduser', 'os.path.dirname', 'os.path.abspath', 'os.path.basename', 'os.path.realpath', 'collections.namedtuple'}   # object(): a bare sentinel has no state


def _is_mutable_value(v):
    if isinstance(v, (ast.List, ast.Dict, ast.Set, ast.ListComp, ast.DictComp, ast.SetComp)):
        return True
    if isinstance(v, ast.Call):
        d = dotted(v.func) or ''
        if d in ('list', 'dict', 'set', 'defaultdict', 'OrderedDict', 'collections.defaultdict', 'collections.OrderedDict', 'bytearray', 'deque', 'collections.deque'):
            return True
        if d in IMMUTABLE_CALLS:
            return False
        return None  # unknown call
    if isinstance(v, (ast.Constant, ast.Tuple, ast.JoinedStr, ast.Compare, ast.BinOp, ast.Name, ast.Attribute, ast.IfExp, ast.Lambda)):
        return False
    return None


def _module_bindings(mod):
    out = []
    for st in mod.body:
        targets = []
        if isinstance(st, ast.Assign):
            targets = [t for t in st.targets if isinstance(t, ast.Name)]
            val = st.value
        elif isinstance(st, ast.AnnAssign) and isinstance(st.target, ast.Name) and st.value is not None:
            targets = [st.target]
            val = st.value
        elif isinstance(st, ast.Try):
            for s in st.body + [x for h in st.handlers for x in h.body]:
                if isinstance(s, ast.Assign):
                    for t in s.targets:
                        if isinstance(t, ast.Name):
                            out.append((t.id, s.value, s))
            continue
        else:
            continue
        for t in targets:
            out.append((t.id, val, st))
    return out


def _stateful_instance(p, val):
    """(class name, methods other than __init__ that store into / mutate attributes of self) when val constructs a class of the port"""
    if not isinstance(val, ast.Call):
        return None
    nm = (dotted(val.func) or '').split('.')[-1]
    cands = [c for k, c in p.classes.items() if k.split(':')[1] == nm]
    if not cands:
        return None
    meths = set()
    for mth in [x for x in cands[0].body if isinstance(x, ast.FunctionDef) and x.name != '__init__']:
        for n in walk_no_nested(mth):
            if isinstance(n, (ast.Attribute, ast.Subscript)) and isinstance(n.ctx, (ast.Store, ast.Del)) and (dotted(n) or dotted(getattr(n, 'value', None)) or '').startswith('self'):
                meths.add(mth.name)
            if isinstance(n, ast.Call) and isinstance(n.func, ast.Attribute) and n.func.attr in MUTATORS and (dotted(n.func.value) or '').startswith('self.'):
                meths.add(mth.name)
    return nm, meths


def rule_gs_modstate(cx, rep, port='py'):
    p = cx.py
    n_bind = 0
    for m in PY_LIBRARY_MODULES:
        mod = p.modules[m]
        bindings = _module_bindings(mod)
        n_bind += len(bindings)
        mutable = {}
        for name, val, st in bindings:
            mv = _is_mutable_value(val)
            if mv is True:
                mutable[name] = st
            elif mv is None and _stateful_instance(p, val) is not None:
                cls_name, meths = _stateful_instance(p, val)
                users = [fd for fd in p.all_funcs(PY_LIBRARY_MODULES) if any(isinstance(x, ast.Name) and x.id == name and isinstance(x.ctx, ast.Load) for x in ast.walk(fd))] if meths else []
                if not meths:
                    rep.holds('{}.{}'.format(m, name), st, 'instance of {} whose methods never change it after construction'.format(cls_name))
                elif users:
                    rep.violated('{}.{}'.format(m, name), st, 'module-level instance `{}` of {} is used by {}(): its method(s) {} change the instance, so what one query (or thread) did to it decides how the next one behaves'.format(name, cls_name, users[0].name, ', '.join(sorted(meths))))
                else:
                    rep.holds('{}.{}'.format(m, name), st, 'stateful instance that no function uses')
            elif mv is None:
                rep.undecided('{}.{}'.format(m, name), st, 'module-level binding `{}` has a value whose mutability is not classified'.format(node_text(st)))
        # receivers of mutating operations anywhere in the module (aliases: x = G  without copy)
        for name, st in mutable.items():
            offenders = []
            for fd in list(p.funcs_in(m)) + [mod]:
                aliases = {name}
                body = fd if isinstance(fd, ast.Module) else fd
                for n in (walk_no_nested(body) if not isinstance(fd, ast.Module) else [x for s in mod.body if not isinstance(s, (ast.FunctionDef, ast.ClassDef)) for x in ast.walk(s)]):
                    if isinstance(n, ast.Assign) and isinstance(n.value, ast.Name) and n.value.id in aliases:
                        for t in n.targets:
                            if isinstance(t, ast.Name):
                                aliases.add(t.id)
                if not isinstance(fd, ast.Module):
                    params = {a.arg for a in fd.args.args}
                    local_defs = {t.id for n in walk_no_nested(fd) if isinstance(n, ast.Assign) for t in n.targets if isinstance(t, ast.Name)}
                    if name in params or (name in local_defs and not any(isinstance(g, ast.Global) and name in g.names for g in walk_no_nested(fd))):
                        aliases.discard(name)
                nodes = walk_no_nested(fd) if not isinstance(fd, ast.Module) else [x for s in mod.body if not isinstance(s, (ast.FunctionDef, ast.ClassDef)) for x in ast.walk(s)]
                for n in nodes:
                    if isinstance(n, ast.Call) and isinstance(n.func, ast.Attribute) and n.func.attr in MUTATORS and isinstance(n.func.value, ast.Name) and n.func.value.id in aliases:
                        offenders.append(n)
                    if isinstance(n, (ast.Subscript, ast.Attribute)) and isinstance(n.ctx, (ast.Store, ast.Del)) and isinstance(n.value, ast.Name) and n.value.id in aliases:
                        offenders.append(n)
                    if isinstance(n, ast.AugAssign) and isinstance(n.target, ast.Name) and n.target.id in aliases and not isinstance(fd, ast.Module):
                        if any(isinstance(g, ast.Global) and n.target.id in g.names for g in walk_no_nested(fd)):
                            offenders.append(n)
            memo = None
            if offenders:
                from ..idioms import pure_memo_store
                consts = p.module_consts(m)
                descs = []
                for o in offenders:
                    stmt = o
                    while stmt is not None and not isinstance(stmt, (ast.stmt,)) and not (isinstance(stmt, ast.Call) and isinstance(stmt.func, ast.Attribute) and stmt.func.attr == 'set'):
                        stmt = getattr(stmt, 'parent', None)
                    ofd = enclosing_func(o)
                    descs.append(pure_memo_store(ofd, stmt, name, consts) if ofd is not None and stmt is not None else None)
                if all(descs):
                    memo = descs[0]
            if memo:
                rep.holds('{}.{}'.format(m, name), st, 'module-level table filled only as a pure memo ({}): a hit returns what a miss would compute'.format(memo))
            elif offenders:
                rep.violated('{}.{}'.format(m, name), offenders[0], 'module-level mutable object `{}` is modified in place by `{}`: the state leaks from one query into the next and is shared between threads'.format(name, node_text(offenders[0])))
            else:
                rep.holds('{}.{}'.format(m, name), st, 'module-level mutable value, never the receiver of a mutating operation (copies such as x[:] are fresh)')
        # global statements
        for fd in p.funcs_in(m):
            for g in walk_no_nested(fd):
                if isinstance(g, ast.Global):
                    for nm in g.names:
                        reason = GLOBAL_ALLOW.get((m, nm))
                        if reason:
                            rep.holds('{}: global {} in {}'.format(m, nm, fd.name), g, 'allow-listed: ' + reason)
                        else:
                            rep.violated('{}: global {} in {}'.format(m, nm, fd.name), g, 'function {} rebinds module global `{}`: state shared by all queries'.format(fd.name, nm))
        # module-level caches reached through function attributes:  f.cache = ... / setattr(module...)
        for fd in p.funcs_in(m):
            for n in walk_no_nested(fd):
                if isinstance(n, ast.Attribute) and isinstance(n.ctx, ast.Store) and isinstance(n.value, ast.Name):
                    tgt = n.value.id
                    if tgt in {f.name for f in p.funcs_in(m)} or tgt in {c.name for c in p.classes_in(m)} or tgt in p.modules:
                        rep.violated('{}: {}.{} store in {}'.format(m, tgt, n.attr, fd.name), n, 'attribute store on the module-level object `{}` keeps state across queries'.format(tgt))
        # process-global effects
        for key, fd in p.funcs.items():
            mm, q = key.split(':')
            if mm != m:
                continue
            for c in walk_no_nested(fd):
                if isinstance(c, ast.Call):
                    d = dotted(c.func) or ''
                    if d in ('sys.stdout.close', 'sys.stdin.close', 'sys.stderr.close', 'os.chdir', 'os.putenv', 'sys.setrecursionlimit', 'random.seed', 'locale.setlocale', 'signal.signal', 'sys.exit', 'os._exit') or d.startswith('os.environ'):
                        reason = PROCESS_EFFECT_ALLOW.get((m, q, d))
                        if reason:
                            rep.holds('{}: {} in {}'.format(m, d, q), c, 'allow-listed: ' + reason)
                        else:
                            rep.violated('{}: {} in {}'.format(m, d, q), c, 'library code performs the process-global effect `{}`'.format(d))
                if isinstance(c, (ast.Assign, ast.AugAssign)):
                    tgts = c.targets if isinstance(c, ast.Assign) else [c.target]
                    for t in tgts:
                        d = dotted(t) or ''
                        if d.startswith('sys.') or d.startswith('os.environ') or d.split('.')[0] in ('builtins', '__builtins__'):
                            rep.violated('{}: store {} in {}'.format(m, d, q), c, 'library code rebinds `{}`'.format(d))
    rep.require_count('module-level bindings inventoried', n_bind, 40, (p.files['rbql_engine'], 0))


def rule_gs_classattr(cx, rep, port='py'):
    p = cx.py
    n = 0
    for m in PY_LIBRARY_MODULES:
        for c in p.classes_in(m):
            n += 1
            bad = []
            for st in c.body:
                if isinstance(st, ast.Assign) and _is_mutable_value(st.value) is not False:
                    bad.append(st)
            if bad:
                rep.violated('{}.{}'.format(m, c.name), bad[0], 'class-level mutable attribute `{}` is shared by all instances (all queries)'.format(node_text(bad[0])))
            else:
                rep.holds('{}.{}'.format(m, c.name), c, 'no class-level mutable attribute')
    rep.require_count('classes', n, 30, (p.files['rbql_engine'], 0))


def rule_gs_defaults(cx, rep, port='py'):
    p = cx.py
    n = 0
    bad = 0
    for m in PY_LIBRARY_MODULES:
        for fd in p.funcs_in(m):
            for d in list(fd.args.defaults) + [k for k in fd.args.kw_defaults if k is not None]:
                n += 1
                if _is_mutable_value(d) is not False:
                    bad += 1
                    rep.violated('{}.{} default `{}`'.format(m, fd.name, node_text(d)), d, 'mutable default argument is created once and shared by all calls')
    if not bad:
        rep.holds('default arguments', (p.files['rbql_engine'], 0), '{} default values, none mutable'.format(n))
    rep.require_count('default arguments', n, 30, (p.files['rbql_engine'], 0))


def rule_gs_ctxescape(cx, rep, port='py'):
    """the RBQLContext created in query() flows only into calls and per-run closures; never stored in a module/class attribute"""
    p = cx.py
    q = p.func('rbql_engine', 'query')
    creations = [n for n in walk_no_nested(q) if isinstance(n, ast.Assign) and isinstance(n.value, ast.Call) and dotted(n.value.func) == 'RBQLContext']
    if len(creations) != 1:
        rep.violated('context creation', q, 'query() creates {} RBQLContext objects (each call must create exactly one of its own)'.format(len(creations)))
        return
    var = creations[0].targets[0].id
    rep.holds('context creation', creations[0], 'one RBQLContext per query() call, bound to local `{}`'.format(var))
    # all functions that receive a context parameter
    offenders = []
    n_funcs = 0
    for fd in p.funcs_in('rbql_engine'):
        params = [a.arg for a in fd.args.args]
        ctxs = {x for x in params if x == 'query_context'}
        if fd is q:
            ctxs.add(var)
        # closures inside compile_and_run capture query_context: fine (per run)
        if not ctxs and 'query_context' not in names_in(fd):
            continue
        n_funcs += 1
        for n in walk_no_nested(fd):
            if isinstance(n, ast.Assign) and isinstance(n.value, ast.Name) and n.value.id in (ctxs | {'query_context'}):
                for t in n.targets:
                    d = dotted(t) or ''
                    if isinstance(t, ast.Attribute) and not d.startswith('self.'):
                        offenders.append((fd, n))
                    if isinstance(t, ast.Name) and any(isinstance(g, ast.Global) and t.id in g.names for g in walk_no_nested(fd)):
                        offenders.append((fd, n))
                    if isinstance(t, ast.Subscript):
                        offenders.append((fd, n))
            if isinstance(n, ast.Global) and ('query_context' in n.names):
                offenders.append((fd, n))
    # module-level query_context variable?
    for name, val, st in _module_bindings(p.modules['rbql_engine']):
        if name == 'query_context':
            offenders.append((None, st))
    if offenders:
        fd, n = offenders[0]
        rep.violated('context escape', n, 'the per-query context is stored outside the call chain by `{}`: concurrent or consecutive queries would share it'.format(node_text(n)))
    else:
        rep.holds('context escape', q, '{} functions handle the context; it is only passed as an argument or captured by per-run closures'.format(n_funcs))
    # RBQLContext.__init__ creates all its mutable members freshly
    ctx = p.cls('rbql_engine', 'RBQLContext')
    init = [m for m in ctx.body if isinstance(m, ast.FunctionDef) and m.name == '__init__'][0]
    params = {a.arg for a in init.args.args}
    shared = []
    for n in walk_no_nested(init):
        if isinstance(n, ast.Assign) and isinstance(n.value, ast.Name) and n.value.id not in params and n.value.id not in ('None', 'True', 'False'):
            shared.append(n)
    rep.decide(not shared, 'context members', init, 'members are constants, constructor arguments or fresh containers', 'context member `{}` is initialised from a shared object'.format(node_text(shared[0]) if shared else ''))


def rule_gs_exec(cx, rep, port='py'):
    """exec gets explicit globals and a per-call locals mapping; the compiled text is the composed skeleton; helper closures are per run"""
    p = cx.py
    car = p.func('rbql_engine', 'compile_and_run')
    execs = [c for m in PY_LIBRARY_MODULES for c in ast.walk(p.modules[m]) if isinstance(c, ast.Call) and dotted(c.func) in ('exec', 'eval')]
    rep.require_count('exec/eval sites', len(execs), 1, car)
    for c in execs:
        fd = enclosing_func(c)
        key = '{} in {}'.format(node_text(c), getattr(fd, 'name', '<module>'))
        if fd is not car:
            rep.violated(key, c, 'exec/eval outside compile_and_run')
            continue
        if len(c.args) != 3:
            rep.violated(key, c, 'exec is not given explicit globals and locals ({} arguments): generated bindings would land in the caller\'s namespace'.format(len(c.args)))
            continue
        g, l = c.args[1], c.args[2]
        ok_l = isinstance(l, ast.Call) and dotted(l.func) == 'locals' or isinstance(l, (ast.Dict, ast.Name))
        ok_g = isinstance(g, ast.Call) and dotted(g.func) == 'globals' or isinstance(g, (ast.Dict, ast.Name))
        if isinstance(l, ast.Call) and dotted(l.func) == 'globals':
            rep.violated(key, c, 'exec uses globals() as its locals mapping: names assigned by the generated module (the wrapper function) are written into the module namespace shared by all queries')
            continue
        if not (ok_l and ok_g):
            rep.undecided(key, c, 'exec namespaces not recognised')
            continue
        # code object comes from generate_main_loop_code via compile
        src = c.args[0]
        ok_src = False
        if isinstance(src, ast.Name):
            defs = [n for n in walk_no_nested(car) if isinstance(n, ast.Assign) and is_name(n.targets[0], src.id)]
            if len(defs) == 1 and isinstance(defs[0].value, ast.Call) and dotted(defs[0].value.func) == 'compile':
                inner = defs[0].value.args[0]
                if isinstance(inner, ast.Name):
                    d2 = [n for n in walk_no_nested(car) if isinstance(n, ast.Assign) and is_name(n.targets[0], inner.id)]
                    ok_src = len(d2) == 1 and isinstance(d2[0].value, ast.Call) and dotted(d2[0].value.func) == 'generate_main_loop_code'
        rep.decide(ok_src, key, c, 'explicit globals + per-call locals(); code = compile(generate_main_loop_code(query_context))', 'the executed code is not the composed main loop')
    # helper closures are defined inside compile_and_run (fresh per run)
    inner = [st.name for st in car.body if isinstance(st, (ast.FunctionDef, ast.ClassDef))]
    need = {'LIKE', 'UNNEST', 'select_unnested', 'init_aggregator', 'MIN', 'MAX', 'COUNT', 'SUM', 'AVG', 'VARIANCE', 'MEDIAN', 'ARRAY_AGG', 'ANY_VALUE', 'mad_max', 'mad_min', 'mad_sum'}
    missing = need - set(inner)
    rep.decide(not missing, 'per-run closures', car, '{} helper closures defined per run inside compile_and_run'.format(len(inner)), 'helpers {} are not per-run closures of compile_and_run'.format(sorted(missing)))
    # closures read state only through query_context (no nonlocal / global)
    bad = [n for n in ast.walk(car) if isinstance(n, (ast.Global, ast.Nonlocal))]
    rep.decide(not bad, 'closure state', car, 'no global/nonlocal in compile_and_run', '`{}` inside compile_and_run'.format(node_text(bad[0]) if bad else ''))


PROCESS_STATE_SETTERS = {
    'sys.set_int_max_str_digits', 'sys.setrecursionlimit', 'sys.setswitchinterval', 'sys.settrace', 'sys.setprofile', 'sys.setcheckinterval',
    'os.chdir', 'os.umask', 'os.putenv', 'os.unsetenv', 'locale.setlocale', 'signal.signal', 'random.seed', 'socket.setdefaulttimeout',
    'warnings.simplefilter', 'warnings.filterwarnings', 'logging.basicConfig', 'csv.field_size_limit', 'decimal.setcontext',
    'gc.disable', 'gc.enable', 'threading.setprofile', 'threading.settrace', 'faulthandler.enable',
}
PROCESS_STATE_OBJECTS = ('os.environ', 'sys.path', 'sys.modules', 'sys.argv', 'sys.stdin', 'sys.stdout', 'sys.stderr')


def rule_gs_procstate(cx, rep, port='py'):
    """the library never changes interpreter- or process-wide settings (conversion limits, recursion limit, locale, working
    directory, environment, warning filters, ...): such a setting is shared by every query running in the process - a
    save / change / restore around one query is undone under the feet of another that overlaps it - and by the host application.
    Zero sites expected; the matcher is checked on a built-in example."""
    p = cx.py
    mods = [m for m in ('rbql_engine', 'rbql_csv', 'csv_utils', 'rbql_sqlite', 'rbql_pandas') if m in p.modules]

    def sites(tree):
        out = []
        for n in ast.walk(tree):
            if isinstance(n, ast.Call):
                d = dotted(n.func) or ''
                if d in PROCESS_STATE_SETTERS and (n.args or n.keywords or d in ('gc.disable', 'gc.enable', 'faulthandler.enable')):
                    out.append((n, d))
                if isinstance(n.func, ast.Attribute) and n.func.attr in ('append', 'insert', 'update', 'pop', 'setdefault', 'clear', 'extend', 'remove') and (dotted(n.func.value) or '') in PROCESS_STATE_OBJECTS[:3]:
                    out.append((n, dotted(n.func)))
            if isinstance(n, (ast.Assign, ast.AugAssign, ast.Delete)):
                tg = n.targets if isinstance(n, (ast.Assign, ast.Delete)) else [n.target]
                for t in tg:
                    base = t.value if isinstance(t, ast.Subscript) else t
                    if (dotted(base) or '') in PROCESS_STATE_OBJECTS:
                        out.append((n, dotted(base)))
        return out
    probe = ast.parse('import sys\nsys.set_int_max_str_digits(0)\nos.environ["X"] = "1"\n')
    if len(sites(probe)) != 2:
        rep.undecided('process state matcher', (p.files['rbql_engine'], 0), 'the matcher does not recognise its built-in examples')
        return
    n = 0
    for m in mods:
        found = sites(p.modules[m])
        # the broken-pipe epilogue of the CSV writer redirects stdout on purpose when the process is about to end
        found = [(nd, d) for nd, d in found if not (m == 'rbql_csv' and d in ('sys.stdout', 'sys.stderr'))]
        n += len(found)
        if found:
            nd, d = found[0]
            fd = enclosing_func(nd)
            rep.violated('{}: {}'.format(m, d), nd, '`{}` in {}() changes a process-wide setting: it is shared with every other query running in this process (a restore at the end of one query undoes it for another that is still running) and with the host application'.format(node_text(nd, 60), fd.name if fd is not None else '<module>'))
        else:
            rep.holds('{}: process-wide settings'.format(m), (p.files[m], 0), 'no call or assignment that changes interpreter / process state')



def rule_gs_debugflag(cx, rep, port='py'):
    """the process-wide debug flags are switched on by request only: a library entry point that calls set_debug_mode() on every run
    (with whatever its own argument says) overwrites what the application or an earlier caller has set, so how errors are reported by
    one query depends on which other queries ran before it"""
    p = cx.py
    n = 0
    for mod in ('rbql_csv', 'rbql_sqlite', 'rbql_pandas', 'rbql_engine'):
        if mod not in p.modules:
            continue
        for fd in p.funcs_in(mod):
            if fd.name == 'set_debug_mode':
                continue
            for c in walk_no_nested(fd):
                if isinstance(c, ast.Call) and (call_name(c) or '').split('.')[-1] == 'set_debug_mode':
                    n += 1
                    guard = getattr(c, 'parent', None)
                    guarded = False
                    while guard is not None and guard is not fd:
                        if isinstance(guard, ast.If) and any(c is x for b in guard.body for x in ast.walk(b)) and 'debug' in node_text(guard.test, 80):
                            guarded = True
                        guard = getattr(guard, 'parent', None)
                    passes_flag = any(not (isinstance(a, ast.Constant) and a.value is True) for a in c.args) or any(True for k in c.keywords)
                    if not guarded and passes_flag:
                        rep.violated('{}.{} debug flag'.format(mod, fd.name), c, '{}() sets the process-wide debug flag on every call (`{}`): a run without debug switches off what the application or an earlier caller switched on'.format(fd.name, node_text(c, 60)))
                    elif not guarded:
                        rep.violated('{}.{} debug flag'.format(mod, fd.name), c, '{}() switches the process-wide debug flag on unconditionally'.format(fd.name))
                    else:
                        rep.holds('{}.{} debug flag'.format(mod, fd.name), c, 'set only when the caller asked for debug mode')
    rep.require_count('set_debug_mode call sites', n, 1, (p.files['rbql_csv'], 0))
