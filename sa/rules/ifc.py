"""IF / CL rules (C13): interface layering, adapter conformance, CLI channels and exit status."""
import ast

from .. import cfg as cfgmod
from .. import roles
from ..core import Undecided, node_text
from ..idioms import is_false, is_name, is_true
from ..model import NOCONST, call_name, const_value, dotted, enclosing_func, is_none, names_in, walk_no_nested, func_params

ADAPTERS = {'rbql_csv', 'csv_utils', 'rbql_pandas', 'rbql_sqlite', 'rbql_main', 'rbql_ipython'}


def rule_if_layer(cx, rep, port='py'):
    """rbql_engine imports no adapter module; it never tests an adapter's concrete type"""
    p = cx.py
    eng = p.modules['rbql_engine']
    imports = []
    for n in ast.walk(eng):
        if isinstance(n, ast.Import):
            imports += [a.name for a in n.names]
        if isinstance(n, ast.ImportFrom):
            imports += ['{}.{}'.format(n.module or '', a.name) for a in n.names]
    bad = [i for i in imports if i.split('.')[-1] in ADAPTERS or i.split('.')[0] in ('pandas', 'sqlite3', 'csv')]
    rep.decide(not bad, 'engine imports', eng.body[0], 'the engine imports none of {}'.format(sorted(ADAPTERS)), 'the record-level engine imports {}: results can depend on the front-end'.format(bad))
    adapter_classes = {c.name for c in roles.sinks(p) + roles.iterators(p) + roles.registries(p) if c.modname != 'rbql_engine'}
    tests = []
    for fd in p.funcs_in('rbql_engine'):
        for c in walk_no_nested(fd):
            if isinstance(c, ast.Call) and dotted(c.func) in ('isinstance', 'type', 'hasattr'):
                txt = node_text(c)
                if any(a in txt for a in adapter_classes) or (dotted(c.func) == 'hasattr' and any(x in txt for x in ('input_iterator', 'output_writer', 'writer'))):
                    tests.append((fd, c))
    rep.decide(not tests, 'engine type tests', tests[0][1] if tests else eng.body[0], 'the engine never inspects the concrete type of an iterator/writer', 'the engine tests an adapter type: `{}`'.format(node_text(tests[0][1]) if tests else ''))
    words = [n for n in ast.walk(eng) if isinstance(n, ast.Name) and n.id in ('delim', 'delimiter', 'separator', 'policy')]
    rep.decide(not words, 'engine csv vocabulary', words[0] if words else eng.body[0], 'no CSV notions (delim/policy) in the engine', 'the engine refers to `{}`'.format(words[0].id if words else ''))


ITER_API = {'get_variables_map': 2, 'get_record': 1, 'handle_query_modifier': 2, 'get_warnings': 1, 'get_header': 1}
WRITER_API = {'write': 2, 'finish': 1, 'get_warnings': 1, 'set_header': 2}
REGISTRY_API = {'get_iterator_by_table_id': 3, 'finish': 1, 'get_warnings': 1}


def rule_if_conf(cx, rep, port='py'):
    """every iterator/writer/registry class overrides the interface methods with compatible arity; get_record returns explicitly
    on every path; adapters whose source yields tuples convert with list()"""
    p = cx.py
    n = 0
    for cls_list, api, must in ((roles.iterators(p), ITER_API, ['get_variables_map', 'get_record']), (roles.sinks(p), WRITER_API, ['write']), (roles.registries(p), REGISTRY_API, ['get_iterator_by_table_id'])):
        for c in cls_list:
            ms = roles.methods(c)
            n += 1
            miss = [m for m in must if m not in ms]
            if miss:
                rep.violated('{}.{}'.format(c.modname, c.name), c, 'abstract method(s) {} are not implemented: the engine would hit NotImplementedError'.format(miss))
                continue
            bad = [(m, len(ms[m].args.args)) for m in api if m in ms and len(ms[m].args.args) != api[m] and not ms[m].args.defaults and not ms[m].args.vararg]
            rep.decide(not bad, '{}.{}'.format(c.modname, c.name), c, 'interface methods have the engine\'s arity', 'method arity differs from the interface: {}'.format(bad))
    rep.require_count('adapter classes', n, 10, (p.files['rbql_engine'], 0))
    for c in roles.iterators(p):
        gr = roles.methods(c)['get_record']
        g = cfgmod.CFG(gr)
        falls = [pn for pn, lab in g.exit.pred if lab != 'return']
        rep.decide(not falls, '{}.get_record returns'.format(c.name), gr, 'explicit return on every path', 'get_record can fall off its end')
        rets = [x.ast for x, lab in g.exit.pred if lab == 'return']
        if c.modname in ('rbql_pandas', 'rbql_sqlite'):
            data = [r for r in rets if r.value is not None and not is_none(r.value)]
            ok = data and all(isinstance(r.value, ast.Call) and dotted(r.value.func) == 'list' for r in data)
            if not ok:
                # by path value: `return None if row is None else list(row)` is the same thing
                from .. import pathsem as _ps
                gps = _ps.paths(gr)
                if gps is not None:
                    vals = [q_.value for q_ in gps if q_.kind == 'return' and q_.value is not None and not is_none(q_.value)]
                    ok = bool(vals) and all(isinstance(v_, ast.Call) and dotted(v_.func) == 'list' for v_ in vals)
            rep.decide(bool(ok), '{}.get_record list'.format(c.name), gr, 'tuple rows are converted to lists', '{} hands the engine a non-list row (star expansion concatenates lists)'.format(c.name))
    # interface defaults: the base classes' optional methods return neutral values
    base = p.cls('rbql_engine', 'RBQLInputIterator')
    ms = roles.methods(base)
    okd = is_none(ms['get_header'].body[-1].value) and isinstance(ms['get_warnings'].body[-1].value, ast.List)
    rep.decide(okd, 'interface defaults', base, 'default get_header -> None, get_warnings -> []', 'interface defaults changed')


def rule_if_entry(cx, rep, port='py'):
    """all public entry points funnel into rbql_engine.query with their own iterator/writer; none re-implements evaluation"""
    p = cx.py
    entries = [('rbql_engine', 'query_table'), ('rbql_csv', 'query_csv'), ('rbql_pandas', 'query_dataframe'), ('rbql_sqlite', 'query_sqlite_to_csv')]
    for m, f in entries:
        fd = p.func(m, f)
        calls = [c for c in walk_no_nested(fd) if isinstance(c, ast.Call) and (call_name(c) or '').split('.')[-1] == 'query']
        ok = len(calls) == 1 and len(calls[0].args) >= 4 and is_name(calls[0].args[0], 'query_text')
        if not ok and calls and all(len(c.args) >= 4 and is_name(c.args[0], 'query_text') for c in calls):
            # several call sites (one per branch): every normal path runs the query exactly once
            from .. import pathsem as _ps
            eps = _ps.paths(fd)
            if eps is not None:
                per_path = [sum(1 for e_ in q_.calls for x in ast.walk(e_) if isinstance(x, ast.Call) and (call_name(x) or '').split('.')[-1] == 'query') for q_ in eps if q_.kind == 'return' and not q_.in_handler]
                ok = bool(per_path) and all(k_ == 1 for k_ in per_path)
        rep.decide(ok, '{}.{}'.format(m, f), calls[0] if calls else fd, 'delegates to rbql_engine.query(query_text, iterator, writer, warnings, ...)', '{} does not delegate the unchanged query text to rbql_engine.query exactly once'.format(f))
        if ok:
            c = calls[0]
            ic = 'user_init_code' in node_text(c, 400)
            rep.decide(ic, '{}.{} init code'.format(m, f), c, 'user init code is forwarded', '{} drops the user init code'.format(f))
    init = p.modules.get('__init__')
    if init is not None:
        t = node_text(init, 3000)
        ok = all(x in t for x in ('from .rbql_engine import query', 'from .rbql_engine import query_table', 'from .rbql_csv import query_csv', 'query_pandas_dataframe'))
        rep.decide(ok, 'package exports', init.body[0], 'query, query_table, query_csv, query_pandas_dataframe exported', 'package exports changed')


def _runner_outcome(rep, p, r, runner):
    """any exception of the query -> (type, message) -> show_error and result False; no exception -> no error line and result True.
    Decided on the path summaries of the runner (a helper that computes the result is followed), not on its layout."""
    from .. import pathsem
    ps = pathsem.paths(r)
    if ps is None:
        rep.undecided(runner + ' outcome', r, 'runner is not summarisable as paths')
        return
    full = []
    for q in ps:
        if q.kind == 'return' and isinstance(q.value, ast.Call) and isinstance(q.value.func, ast.Name) and p.func('rbql_main', q.value.func.id, required=False) is not None:
            h = p.func('rbql_main', q.value.func.id)
            hps = pathsem.paths_with_env(h, {a.arg: arg for a, arg in zip(h.args.args, q.value.args)})
            if hps is None:
                rep.undecided(runner + ' outcome', h, 'helper {} is not summarisable as paths'.format(h.name))
                return
            for x in hps:
                y = q.copy()
                y.conds = q.conds + x.conds
                y.calls = q.calls + x.calls
                y.kind, y.value, y.node = x.kind, x.value, x.node
                full.append(y)
        else:
            full.append(q)

    def maps_exception(e):
        return any(isinstance(c, ast.Call) and (dotted(c.func) or '').endswith('exception_to_error_info') for c in ast.walk(e))

    def truth(atom):
        if isinstance(atom, ast.Compare) and len(atom.ops) == 1 and isinstance(atom.ops[0], (ast.Is, ast.Eq)) and is_none(atom.comparators[0]):
            if is_none(atom.left):
                return True
            if maps_exception(atom.left):
                return False
        return None
    n_err = n_ok = 0
    mapped = False
    for q in full:
        if q.kind != 'return':
            continue
        feasible = True
        for atom, pol in pathsem.atoms(q.conds):
            tv = truth(atom)
            if tv is not None and tv != pol:
                feasible = False
        if not feasible:
            continue
        failed = bool(q.in_handler)
        if failed and not any(maps_exception(v) for v in q.env.values()):
            continue    # a handler that does not map (e.g. cleanup) - the mapping handler is checked below
        mapped = mapped or failed
        shows_err = [c for c in q.calls if isinstance(c, ast.Call) and dotted(c.func) == 'show_error']
        val = const_value(q.value) if q.value is not None else None
        if failed:
            n_err += 1
            if not shows_err or val is not False:
                rep.violated(runner + ' outcome', q.node, 'after a failed query {} {} and returns `{}`: the CLI must print an `Error [type]` line and report failure (non-zero exit status)'.format(runner, 'shows the error' if shows_err else 'shows no error line', node_text(q.value, 40)))
                return
            if not (len(shows_err[0].args) >= 2 and maps_exception(shows_err[0].args[0]) and maps_exception(shows_err[0].args[1])):
                rep.violated(runner + ' outcome', q.node, 'the error line is not built from the (type, message) pair of the exception: `{}`'.format(node_text(shows_err[0], 100)))
                return
        else:
            n_ok += 1
            ran = [c for c in list(q.calls) + list(q.env.values()) for x in ast.walk(c) if isinstance(x, ast.Call) and (dotted(x.func) or '').split('.')[-1] in ('query_csv', 'query_sqlite_to_csv', 'query')]
            if not ran:
                rep.violated(runner + ' outcome', q.node, '{} reports success on a path that never runs the query (no call of query_csv / query_sqlite_to_csv)'.format(runner))
                return
            if shows_err or val is not True:
                rep.violated(runner + ' outcome', q.node, 'after a successful query {} {} and returns `{}`'.format(runner, 'prints an error line' if shows_err else 'prints no error', node_text(q.value, 40)))
                return
    rep.decide(n_err >= 1 and n_ok >= 1 and mapped, runner + ' outcome', r, 'any exception -> (type, message) -> show_error, result False; otherwise warnings are shown and result True', '{} no longer maps every exception to an `Error [type]` line and a False result'.format(runner))


def rule_cl_stdout(cx, rep, port='py'):
    """on the non-interactive path no print to stdout is reachable except --version; errors `Error [type]: msg` and warnings to stderr"""
    p = cx.py
    if 'rbql_main' not in p.modules:
        raise Undecided('rbql_main missing')
    se = p.func('rbql_main', 'show_error')
    sw = p.func('rbql_main', 'show_warning')
    from .. import pathsem
    for fd, word, fmt in ((se, 'Error', "'Error [{}]: {}'.format(error_type, error_msg)"), (sw, 'Warning', "'Warning: ' + msg")):
        flag = fd.args.args[-1].arg
        ps = pathsem.paths(fd)
        if ps is None:
            rep.undecided(fd.name, fd, '{} is not summarisable as paths'.format(fd.name))
            continue
        n_non = 0
        bad = None
        fmt_seen = None
        for q in ps:
            if q.kind == 'raise':
                continue
            def leaf(e):
                return False if is_name(e, flag) else None       # the non-interactive run
            if not pathsem.consistent(q, leaf):
                continue
            n_non += 1
            prints = [c for c in q.calls if isinstance(c, ast.Call) and dotted(c.func) in ('print', 'sys.stdout.write')]
            eps = [c for c in q.calls if isinstance(c, ast.Call) and dotted(c.func) == 'eprint']
            if prints or len(eps) != 1:
                bad = q.node if q.node is not None else fd
                break
            fmt_seen = eps[0]
        if not n_non:
            rep.violated(fd.name, fd, '{} no longer separates the interactive from the non-interactive channel'.format(fd.name))
        elif bad is not None:
            rep.violated(fd.name, bad, 'on the non-interactive path {} prints to stdout (or prints nothing to stderr): the message is mixed into the table data'.format(fd.name))
        else:
            rep.decide(node_text(fmt_seen.args[0]) == fmt, fd.name, fmt_seen, 'non-interactive: `{}` on stderr'.format(fmt), 'the non-interactive {} line is `{}` (documented format: {})'.format(word, node_text(fmt_seen.args[0]), fmt))
    ep = p.func('rbql_main', 'eprint')
    okp = 'file=sys.stderr' in node_text(ep, 300)
    rep.decide(okp, 'eprint', ep, 'eprint writes to sys.stderr', 'eprint no longer writes to sys.stderr')
    # functions reachable on the non-interactive path: csv_main -> run_with_python_csv, sqlite_main -> run_with_python_sqlite
    for entry, runner in (('csv_main', 'run_with_python_csv'), ('sqlite_main', 'run_with_python_sqlite')):
        r = p.func('rbql_main', runner)
        prints = [c for c in walk_no_nested(r) if isinstance(c, ast.Call) and dotted(c.func) in ('print', 'sys.stdout.write')]
        rep.decide(not prints, runner + ' stdout', prints[0] if prints else r, 'the runner itself prints nothing to stdout', '{} prints to stdout on the query path'.format(runner))
        # message calls of the runner and of the module-level helpers it calls
        scopes = [r]
        for c in walk_no_nested(r):
            if isinstance(c, ast.Call) and isinstance(c.func, ast.Name):
                h = p.func('rbql_main', c.func.id, required=False)
                if h is not None and h.name not in ('show_error', 'show_warning', 'eprint') and h not in scopes:
                    scopes.append(h)
        shows = [c for sc_ in scopes for c in walk_no_nested(sc_) if isinstance(c, ast.Call) and dotted(c.func) in ('show_error', 'show_warning')]
        ok = shows and all(len(c.args) >= 2 and is_name(c.args[-1], 'is_interactive') for c in shows)
        rep.decide(bool(ok), runner + ' channel flag', shows[0] if shows else r, 'messages honour the is_interactive flag', '{} does not pass is_interactive to show_error/show_warning'.format(runner))
        _runner_outcome(rep, p, r, runner)
        m = p.func('rbql_main', entry)
        main_prints = [c for c in walk_no_nested(m) if isinstance(c, ast.Call) and dotted(c.func) == 'print']
        okv = all(isinstance(getattr(_stmt(c), 'parent', None), ast.If) and node_text(_stmt(c).parent.test) == 'args.version' for c in main_prints)
        rep.decide(okv, entry + ' prints', main_prints[0] if main_prints else m, 'the only print in the entry point is --version', '{} prints to stdout outside --version'.format(entry))
        # a warning / error shown by the entry point itself before interactive mode was chosen goes to the non-interactive channel
        wrong = [c for c in walk_no_nested(m) if isinstance(c, ast.Call) and dotted(c.func) in ('show_warning', 'show_error') and (any(k.arg == 'is_interactive' and is_true(k.value) for k in c.keywords) or (len(c.args) >= 2 and is_true(c.args[-1])))]
        if wrong:
            rep.violated(entry + ' channel', wrong[0], '{}() shows a message with is_interactive=True on the path every run takes: in a non-interactive run the line is printed to stdout, in front of the result table'.format(entry))
        shows = [c for c in walk_no_nested(m) if isinstance(c, ast.Call) and dotted(c.func) == 'show_error']
        okc = all(any(k.arg == 'is_interactive' and is_false(k.value) for k in c.keywords) for c in shows)
        rep.decide(okc, entry + ' argument errors', shows[0] if shows else m, 'argument errors go to stderr', '{} reports an argument error on stdout'.format(entry))


def _stmt(n):
    while n is not None and not isinstance(n, ast.stmt):
        n = getattr(n, 'parent', None)
    return n


def rule_cl_exit(cx, rep, port='py'):
    """every failure path ends in sys.exit(1); the success path falls off main"""
    p = cx.py
    for entry, runner in (('csv_main', 'run_with_python_csv'), ('sqlite_main', 'run_with_python_sqlite')):
        m = p.func('rbql_main', entry)
        shows = [c for c in walk_no_nested(m) if isinstance(c, ast.Call) and dotted(c.func) == 'show_error']
        n_ok = 0
        for c in shows:
            st = _stmt(c)
            blk = _block_of(st)
            i = blk.index(st)
            nxt = blk[i + 1] if i + 1 < len(blk) else None
            ok = isinstance(nxt, ast.Expr) and isinstance(nxt.value, ast.Call) and dotted(nxt.value.func) == 'sys.exit' and nxt.value.args and isinstance(nxt.value.args[0], ast.Constant) and nxt.value.args[0].value not in (0, None)
            if ok:
                n_ok += 1
            else:
                rep.violated('{}: exit after `{}`'.format(entry, node_text(c, 80)), c, 'an argument error is reported but the process does not exit with a non-zero status')
        if n_ok == len(shows) and shows:
            rep.holds('{}: argument errors'.format(entry), m, '{} error reports, each followed by sys.exit(1)'.format(n_ok))
        runs = [n for n in walk_no_nested(m) if isinstance(n, ast.If) and runner in node_text(n.test)]
        ok = len(runs) == 1 and isinstance(runs[0].test, ast.UnaryOp) and isinstance(runs[0].test.op, ast.Not) and 'sys.exit(1)' in node_text(runs[0].body[0]) and 'is_interactive=False' in node_text(runs[0].test)
        calls_runner = [c for c in walk_no_nested(m) if isinstance(c, ast.Call) and (dotted(c.func) or '').split('.')[-1] == runner]
        if ok:
            rep.holds('{}: query failure'.format(entry), runs[0], 'a failed query exits with status 1, a successful one falls through (status 0)')
        elif len(runs) == 1 and 'sys.exit' not in node_text(runs[0], 2000):
            rep.violated('{}: query failure'.format(entry), runs[0], '{} does not exit non-zero exactly when the query failed'.format(entry))
        elif calls_runner and all(isinstance(getattr(c, 'parent', None), ast.Expr) for c in calls_runner):
            rep.violated('{}: query failure'.format(entry), calls_runner[0], '{} drops the verdict of {}: a failed query ends with exit status 0'.format(entry, runner))
        else:
            rep.undecided('{}: query failure'.format(entry), runs[0] if runs else m, 'how {} turns the verdict of {} into the exit status was not recognised'.format(entry, runner))
        exits0 = [c for c in walk_no_nested(m) if isinstance(c, ast.Call) and dotted(c.func) == 'sys.exit' and (not c.args or (isinstance(c.args[0], ast.Constant) and c.args[0].value in (0, None)))]
        rep.decide(not exits0, '{}: zero exits'.format(entry), exits0[0] if exits0 else m, 'no sys.exit(0) on error paths', '{} calls sys.exit with a zero/empty status'.format(entry))
    # error taxonomy map total over the three classes
    ei = p.func('rbql_engine', 'exception_to_error_info')
    d = [n for n in walk_no_nested(ei) if isinstance(n, ast.Dict)]
    got = {k.value: v.value for k, v in zip(d[0].keys, d[0].values)} if d else {}
    want = {'RbqlRuntimeError': 'query execution', 'RbqlParsingError': 'query parsing', 'RbqlIOHandlingError': 'IO handling'}
    # evaluated on abstract exceptions of the three library classes, of another class and of SyntaxError
    from .. import absexec as AX_
    classes_ = {'RbqlRuntimeError': 'query execution', 'RbqlParsingError': 'query parsing', 'RbqlIOHandlingError': 'IO handling', 'ValueError': 'unexpected', 'SyntaxError': 'syntax error'}
    # every error class of the library that derives from one of the three belongs to its base's category
    bases_ = {}
    for mname_, mod_ in p.modules.items():
        for st_ in mod_.body:
            if isinstance(st_, ast.ClassDef):
                bases_[st_.name] = [(dotted(b_) or '').split('.')[-1] for b_ in st_.bases]

    def root_(cn, depth=0):
        if cn in ('RbqlRuntimeError', 'RbqlParsingError', 'RbqlIOHandlingError'):
            return cn
        for b_ in bases_.get(cn, []) if depth < 5 else []:
            r_ = root_(b_, depth + 1)
            if r_:
                return r_
        return None
    derived_ = {cn: root_(cn) for cn in bases_ if cn not in classes_ and root_(cn)}
    for cn, rt in derived_.items():
        classes_[cn] = classes_[rt]
    got_m, gave_up_ = {}, None
    for cname_ in classes_:
        exc = AX_.Abs('ExcObj', cls=cname_)

        def on_call_(ex, node, fname, recv, args, exc=exc, cname_=cname_):
            if fname == 'isinstance' and len(args) == 2 and args[0] is exc:
                cl_ = args[1] if isinstance(args[1], (list, tuple)) and not (len(args[1]) == 2 and args[1][0] in ('global', 'builtin', 'class')) else [args[1]]
                names_ = [(c_[1].split('.')[-1] if isinstance(c_, tuple) and len(c_) == 2 else None) for c_ in cl_]
                if None in names_:
                    raise Undecided('isinstance against {!r}'.format(args[1]), node)
                return cname_ in names_ or derived_.get(cname_) in names_ or ('Exception' in names_) or ('BaseException' in names_)
            if fname == 'str' and len(args) == 1 and args[0] is exc:
                return 'the message'
            if fname == 'sys.exc_info':
                return (('class', cname_), exc, None)
            if fname.endswith('format_exception_only'):
                return ['  File "<string>", line 1\n', '    select a1 having x\n', 'SyntaxError: invalid syntax\n']
            return AX_.NOT_HANDLED

        def on_attr_(ex, node, obj, attr, cname_=cname_):
            if isinstance(obj, tuple) and len(obj) == 2 and obj[0] == 'class' and attr == '__name__':
                return obj[1]
            return AX_.NOT_HANDLED

        def on_name_(ex, node, name):
            if name in ('SyntaxError', 'Exception', 'BaseException', 'ValueError'):
                return ('global', name)
            return AX_.NOT_HANDLED
        try:
            runs_, cut_ = AX_.Explorer(p, 'rbql_engine', on_call=on_call_, on_attr=on_attr_, on_name=on_name_, max_choices=1).explore(ei, [exc])
            v_ = runs_[0].outcome[1] if (not cut_ and len(runs_) == 1 and runs_[0].outcome[0] == 'return') else None
            if not (isinstance(v_, (tuple, list)) and len(v_) == 2 and isinstance(v_[0], str)):
                raise Undecided('no (type, message) pair for {}'.format(cname_), ei)
            got_m[cname_] = v_[0]
        except (Undecided, KeyError, IndexError, TypeError, AttributeError, ValueError) as e_:
            gave_up_ = (cname_, str(e_))
            if cname_ != 'SyntaxError':
                break
    lib_ = {k_: v_ for k_, v_ in classes_.items() if k_.startswith('Rbql') or k_ in derived_}
    if all(k_ in got_m for k_ in lib_):
        wrong_ = {k_: got_m[k_] for k_ in lib_ if got_m[k_] != lib_[k_]}
        rep.decide(not wrong_, 'error type map', ei, 'runtime -> query execution, parsing -> query parsing, IO -> IO handling (exception_to_error_info evaluated on abstract exceptions)', 'error class -> type map gives {}'.format(wrong_))
    elif got == want:
        rep.holds('error type map', d[0], 'runtime -> query execution, parsing -> query parsing, IO -> IO handling')
    else:
        rep.undecided('error type map', ei, 'exception_to_error_info is outside the abstract interpreter ({}) and its class table is not the known literal'.format(gave_up_))
    t = node_text(ei, 6000)
    oks = "return ('syntax error', error_msg)" in t and "error_type = 'unexpected'" in t
    if 'ValueError' in got_m and 'SyntaxError' in got_m:
        rep.decide(got_m['ValueError'] == 'unexpected' and got_m['SyntaxError'] == 'syntax error', 'other errors', ei, 'SyntaxError -> syntax error; anything else -> unexpected (evaluated)', 'a SyntaxError is classified as {!r} and another exception as {!r}'.format(got_m['SyntaxError'], got_m['ValueError']))
    elif oks:
        rep.holds('other errors', ei, 'SyntaxError -> syntax error; anything else -> unexpected')
    else:
        rep.undecided('other errors', ei, 'how SyntaxError and unknown exception classes are classified was not recognised ({})'.format(gave_up_))
    # out-format table
    f = p.func('rbql_csv', 'interpret_named_csv_format')
    want_fmt = {'monocolumn': ('', 'monocolumn'), 'csv': (',', 'quoted'), 'tsv': ('\t', 'simple')}
    got_fmt = {}
    from .. import pathsem
    fparam = f.args.args[0].arg
    fps = pathsem.paths(f)

    def pair_of(e):
        if isinstance(e, (ast.Tuple, ast.List)) and len(e.elts) == 2 and all(isinstance(x, ast.Constant) and isinstance(x.value, str) for x in e.elts):
            return (e.elts[0].value, e.elts[1].value)
        return None
    if fps is not None:
        # an if-chain (or switch): the outcome per name
        for name in want_fmt:
            def leaf(e, name=name):
                subj = e.left if isinstance(e, ast.Compare) else None
                if isinstance(subj, ast.Call) and isinstance(subj.func, ast.Attribute) and subj.func.attr in ('lower', 'toLowerCase', 'strip') and not subj.args:
                    subj = subj.func.value       # names are compared in lower case
                if isinstance(e, ast.Compare) and len(e.ops) == 1 and is_name(subj, fparam) and isinstance(e.comparators[0], ast.Constant) and isinstance(e.ops[0], (ast.Eq, ast.NotEq)):
                    return (e.comparators[0].value == name) == isinstance(e.ops[0], ast.Eq)
                return None
            outs = {pair_of(q.value) for q in fps if q.kind == 'return' and pathsem.consistent(q, leaf)}
            if len(outs) == 1 and None not in outs:
                got_fmt[name] = outs.pop()
    if len(got_fmt) < len(want_fmt):
        # table-driven: a constant table (in the function or at module level) that pairs the names with (delimiter, policy)
        used = {x.id for x in ast.walk(f) if isinstance(x, ast.Name)}
        cands = [x for x in ast.walk(f) if isinstance(x, (ast.Dict, ast.Tuple, ast.List))]
        cands += [st.value for st in p.modules['rbql_csv'].body if isinstance(st, ast.Assign) and len(st.targets) == 1 and isinstance(st.targets[0], ast.Name) and st.targets[0].id in used]
        for c_ in cands:
            ent = {}
            if isinstance(c_, ast.Dict):
                for k_, v_ in zip(c_.keys, c_.values):
                    if isinstance(k_, ast.Constant) and pair_of(v_):
                        ent[k_.value] = pair_of(v_)
            elif isinstance(c_, (ast.Tuple, ast.List)):
                for e_ in c_.elts:
                    if isinstance(e_, (ast.Tuple, ast.List)) and len(e_.elts) == 2 and isinstance(e_.elts[0], ast.Constant) and pair_of(e_.elts[1]):
                        ent[e_.elts[0].value] = pair_of(e_.elts[1])
            if set(ent) >= set(want_fmt):
                got_fmt = {k_: ent[k_] for k_ in want_fmt}
    if len(got_fmt) < len(want_fmt):
        rep.undecided('out-format table', f, 'how interpret_named_csv_format maps the names csv / tsv / monocolumn is not recognised ({} resolved)'.format(sorted(got_fmt)))
    else:
        wrong = {k_: v_ for k_, v_ in got_fmt.items() if want_fmt[k_] != v_}
        rep.decide(not wrong, 'out-format table', f, 'csv -> (",", quoted), tsv -> (TAB, simple), monocolumn', 'named output formats changed: {}'.format(wrong))
    r = p.func('rbql_main', 'run_with_python_csv')
    # on the paths where --out-format is `input` the output dialect handed to query_csv is the input dialect; otherwise it is what
    # interpret_named_csv_format gives for the named format (decided on path summaries: locals substituted along each path)
    from .. import pathsem as _ps
    rps = _ps.paths(r)
    oko = None
    if rps is not None:
        seen_in = seen_named = 0
        oko = True
        for q_ in rps:
            calls_ = [x for e_ in list(q_.calls) + list(q_.env.values()) + ([q_.value] if q_.value is not None else []) for x in ast.walk(e_) if isinstance(x, ast.Call) and (dotted(x.func) or '').endswith('query_csv') and len(x.args) >= 7]
            if not calls_:
                continue
            c_ = calls_[0]
            is_input = None
            for atom, pol in _ps.atoms(q_.conds):
                if isinstance(atom, ast.Compare) and len(atom.ops) == 1 and isinstance(atom.ops[0], ast.Eq) and 'out_format' in node_text(atom.left, 80) and isinstance(atom.comparators[0], ast.Constant) and atom.comparators[0].value == 'input':
                    is_input = pol
            def through_stores(e_, q_=q_):
                # an attribute the path has just assigned (`args.output_delim = ...`) stands for the value stored
                for t_, v_ in reversed(q_.stores):
                    if node_text(t_, 200) == node_text(e_, 200):
                        return v_
                return e_
            o5, o6 = through_stores(c_.args[5]), through_stores(c_.args[6])
            same = ast.dump(o5) == ast.dump(c_.args[2]) and ast.dump(o6) == ast.dump(c_.args[3])
            named = all('interpret_named_csv_format' in node_text(a_, 300) for a_ in (o5, o6))
            if is_input is True:
                seen_in += 1
                oko = oko and same
            elif is_input is False:
                seen_named += 1
                oko = oko and named
        if not (seen_in and seen_named):
            oko = None
    if oko is None:
        oko_txt = "(delim, policy) if args.out_format == 'input' else rbql_csv.interpret_named_csv_format(args.out_format)" in node_text(r, 6000)
        if oko_txt:
            rep.holds('out-format input', r, '--out-format input reuses the input dialect')
        else:
            rep.undecided('out-format input', r, 'how the output dialect is chosen was not recognised')
    else:
        rep.decide(oko, 'out-format input', r, '--out-format input reuses the input dialect; a named format gives its own', '--out-format input no longer reuses the input delimiter and policy (or a named format does not give its dialect)')
    gd_mod = next((m_ for m_ in ('rbql_main', 'rbql_csv', 'rbql_engine') if m_ in p.modules and p.func(m_, 'get_default_policy', required=False) is not None), 'rbql_main')
    gd = p.func(gd_mod, 'get_default_policy')       # the helper may live in another library module that the command line imports
    # evaluated on the delimiters that matter and on representatives of "anything else"
    from .. import absexec as AX
    table, gave_up = {}, None
    for d_ in (';', ',', ' ', '\t', '|', ';;', ', ', '  ', ''):
        try:
            runs, cut = AX.Explorer(p, gd_mod, max_choices=1).explore(gd, [d_])
            if cut or len(runs) != 1 or runs[0].outcome[0] != 'return' or not isinstance(runs[0].outcome[1], str):
                raise Undecided('no single string result for {!r}'.format(d_), gd)
            table[d_] = runs[0].outcome[1]
        except (Undecided, KeyError, IndexError, TypeError, AttributeError) as e_:
            gave_up = str(e_)
            break
    if gave_up is None:
        want_ = {';': 'quoted', ',': 'quoted', ' ': 'whitespace'}
        wrong_ = {d_: v_ for d_, v_ in table.items() if v_ != want_.get(d_, 'simple')}
        rep.decide(not wrong_, 'default policy', gd, '; , -> quoted, space -> whitespace, else simple (evaluated on 9 delimiters)', 'without --policy the delimiter(s) {} get the policy {} (must be: `;` and `,` quoted, a single space whitespace, everything else simple)'.format(sorted(wrong_), sorted(set(wrong_.values()))))
    else:
        t = node_text(gd, 1000).replace(' ', '')
        okg = "ifdelimin[';',',']:return'quoted'" in t and "elifdelim=='':return'whitespace'" in t.replace("' '", "''") and "else:return'simple'" in t
        if okg:
            rep.holds('default policy', gd, '; , -> quoted, space -> whitespace, else simple')
        else:
            rep.undecided('default policy', gd, 'get_default_policy is outside the abstract interpreter ({}) and its layout is not the known one'.format(gave_up))


def _block_of(stmt):
    par = stmt.parent
    for fld in ('body', 'orelse', 'finalbody'):
        b = getattr(par, fld, None)
        if isinstance(b, list) and stmt in b:
            return b
    return [stmt]


def rule_cl_mode(cx, rep, port='py'):
    """interactive mode is chosen exactly when no --query was given (presence test, not truthiness)"""
    p = cx.py
    for entry in ('csv_main', 'sqlite_main'):
        m = p.func('rbql_main', entry)
        defs = [n for n in walk_no_nested(m) if isinstance(n, ast.Assign) and is_name(n.targets[0], 'is_interactive_mode')]
        if len(defs) != 1:
            rep.undecided(entry + ' mode', m, 'definition of is_interactive_mode not found')
            continue
        v = defs[0].value
        ok = isinstance(v, ast.Compare) and isinstance(v.ops[0], ast.Is) and is_none(v.comparators[0]) and dotted(v.left) == 'args.query'
        if ok:
            rep.holds(entry + ' mode', defs[0], 'interactive iff args.query is None')
        elif 'args.query' in node_text(v) and not isinstance(v, ast.Compare):
            rep.violated(entry + ' mode', defs[0], 'interactive mode is chosen by the truthiness of --query (`{}`): an empty query string starts the interactive preview (stdout output, exit 0) instead of failing with an `Error [...]` line and a non-zero status'.format(node_text(v)))
        else:
            rep.undecided(entry + ' mode', defs[0], 'mode selection `{}` not recognised'.format(node_text(v)))


def rule_if_args(cx, rep, port='py'):
    """entry points route each parameter to the component it is meant for: output delimiter/policy to the writer, input
    delimiter/policy to the reader and the join registry; every parameter is used"""
    p = cx.py
    specs = [('rbql_csv', 'query_csv'), ('rbql_sqlite', 'query_sqlite_to_csv'), ('rbql_engine', 'query_table'), ('rbql_pandas', 'query_dataframe')]
    for mod, fn in specs:
        fd = p.func(mod, fn)
        params = [a.arg for a in fd.args.args]
        used = names_in(ast.Module(body=fd.body, type_ignores=[]))
        unused = [x for x in params if x not in used]
        rep.decide(not unused, '{}.{} parameters'.format(mod, fn), fd, 'every parameter is used', 'parameter(s) {} of {} are never used: the caller\'s setting is silently replaced by something else'.format(unused, fn))
        for c in walk_no_nested(fd):
            if not isinstance(c, ast.Call):
                continue
            nm = (call_name(c) or '').split('.')[-1]
            if nm == 'CSVWriter' and len(c.args) >= 5:
                d, pol = dotted(c.args[3]) or '', dotted(c.args[4]) or ''
                ok = 'output' in d and 'delim' in d and 'output' in pol and 'policy' in pol
                rep.decide(ok, '{}.{} writer dialect'.format(mod, fn), c, 'the writer gets the output delimiter and output policy', 'the output writer is built with delimiter `{}` and policy `{}` instead of the output dialect: converting between formats quotes fields by the wrong rules'.format(d, pol))
            if nm == 'CSVRecordIterator' and len(c.args) >= 4 and fn == 'query_csv':
                d, pol = dotted(c.args[2]) or '', dotted(c.args[3]) or ''
                ok = d == 'input_delim' and pol == 'input_policy'
                rep.decide(ok, '{}.{} reader dialect'.format(mod, fn), c, 'the reader gets the input delimiter and input policy', 'the input reader is built with `{}`/`{}` instead of the input dialect'.format(d, pol))
            if nm == 'FileSystemCSVRegistry' and len(c.args) >= 3:
                d, pol = dotted(c.args[1]) or '', dotted(c.args[2]) or ''
                rep.decide(d == 'input_delim' and pol == 'input_policy', '{}.{} join dialect'.format(mod, fn), c, 'join tables are read with the input dialect', 'join tables are read with `{}`/`{}` instead of the input dialect'.format(d, pol))


def _bound_args(call, fd, skip_self=True):
    """parameter name -> argument expression of a call, following the callee's signature (positional, keyword, defaults)"""
    params = [a.arg for a in fd.args.args]
    if skip_self and params and params[0] == 'self':
        params = params[1:]
    out = {}
    for p_, a_ in zip(params, call.args):
        out[p_] = a_
    for k in call.keywords:
        if k.arg:
            out[k.arg] = k.value
    for p_, d_ in zip(params[len(params) - len(fd.args.defaults):], fd.args.defaults):
        out.setdefault(p_, d_)
    return out


def rule_if_joinopts(cx, rep, port='py'):
    """join tables are read with the same reading options as the input table: for every option that both the input iterator and the
    file-system registry accept (delimiter, policy, encoding, header flag, comment prefix), query_csv hands both the same value"""
    p = cx.py
    fd = p.func('rbql_csv', 'query_csv')
    it_init = p.func('rbql_csv', 'CSVRecordIterator.__init__')
    rg_init = p.func('rbql_csv', 'FileSystemCSVRegistry.__init__')
    it_calls = [c for c in walk_no_nested(fd) if isinstance(c, ast.Call) and (call_name(c) or '').split('.')[-1] == 'CSVRecordIterator']
    rg_calls = [c for c in walk_no_nested(fd) if isinstance(c, ast.Call) and (call_name(c) or '').split('.')[-1] == 'FileSystemCSVRegistry']
    if len(it_calls) != 1 or len(rg_calls) != 1:
        rep.undecided('join reading options', fd, 'constructor calls of the input iterator / join registry not found in query_csv')
        return
    a_it, a_rg = _bound_args(it_calls[0], it_init), _bound_args(rg_calls[0], rg_init)
    common = [k for k in a_it if k in a_rg and k not in ('stream', 'input_file_dir', 'table_name', 'variable_prefix', 'chunk_size', 'line_mode')]
    rep.require_count('options shared by reader and registry', len(common), 4, fd)
    bad = [k for k in common if ast.dump(a_it[k]) != ast.dump(a_rg[k])]
    rep.decide(not bad, 'join reading options', rg_calls[0], 'the registry gets the same {} as the input iterator'.format(', '.join(common)), 'the join registry is built with {} = `{}` while the input iterator gets `{}`: join tables are read by different rules than the input table'.format(bad[0] if bad else '', node_text(a_rg[bad[0]], 40) if bad else '', node_text(a_it[bad[0]], 40) if bad else ''))
    # and the registry passes them on to the iterator it creates
    gi = p.func('rbql_csv', 'FileSystemCSVRegistry.get_iterator_by_table_id')
    inner = [c for c in walk_no_nested(gi) if isinstance(c, ast.Call) and (call_name(c) or '').split('.')[-1] == 'CSVRecordIterator']
    if len(inner) == 1:
        a_in = _bound_args(inner[0], it_init)
        miss = [k for k in common if not (dotted(a_in.get(k)) == 'self.' + k)]
        rep.decide(not miss, 'registry forwards options', inner[0], 'the registry reads join tables with its own {}'.format(', '.join(common)), 'the registry does not pass its `{}` on to the iterator it creates'.format(miss[0] if miss else ''))
    else:
        rep.undecided('registry forwards options', gi, 'iterator construction in the registry not found')


def rule_if_df(cx, rep, port='py'):
    """the dataframe writer hands the header to the result unconditionally"""
    p = cx.py
    fin = p.func('rbql_pandas', 'DataframeWriter.finish')
    calls = [c for c in walk_no_nested(fin) if isinstance(c, ast.Call) and (dotted(c.func) or '').endswith('DataFrame')]
    if len(calls) > 1:
        # several constructions: each one that can become the result must carry the header
        bare = [c for c in calls if not any(k.arg == 'columns' and dotted(k.value) == 'self.header' for k in c.keywords)]
        if bare:
            g_ = bare[0]
            while g_ is not None and not isinstance(g_, ast.If):
                g_ = getattr(g_, 'parent', None)
            rep.violated('DataframeWriter.finish', bare[0], 'on the path taken when `{}` the result is built as `{}` without the header the engine set: an empty result loses its column names although the other front-ends still return the header'.format(node_text(g_.test, 60) if g_ is not None else '?', node_text(bare[0], 40)))
        else:
            rep.holds('DataframeWriter.finish', calls[0], 'every result frame is built with columns=header ({} constructions)'.format(len(calls)))
        return
    if len(calls) != 1:
        rep.undecided('DataframeWriter.finish', fin, 'DataFrame construction not found')
        return
    kw = {k.arg: k.value for k in calls[0].keywords}
    ok = 'columns' in kw and dotted(kw['columns']) == 'self.header' and calls[0].args and dotted(calls[0].args[0]) == 'self.output_rows'
    if ok:
        rep.holds('DataframeWriter.finish', calls[0], 'DataFrame(output_rows, columns=header)')
    else:
        cond = [n for n in walk_no_nested(fin) if isinstance(n, ast.If) and 'header' in node_text(n.test)]
        if cond:
            rep.violated('DataframeWriter.finish', cond[0], 'the header is attached to the result only under `{}`: an empty result loses its column names although the other front-ends still return the header'.format(node_text(cond[0].test, 100)))
        else:
            rep.violated('DataframeWriter.finish', calls[0], 'the result frame is not built as DataFrame(output_rows, columns=header)')
    wr = p.func('rbql_pandas', 'DataframeWriter.write')
    ok = any(isinstance(c, ast.Call) and isinstance(c.func, ast.Attribute) and c.func.attr == 'append' and dotted(c.func.value) == 'self.output_rows' for c in walk_no_nested(wr))
    rep.decide(ok, 'DataframeWriter.write', wr, 'every record is appended to output_rows', 'records are not all appended to output_rows')


def _truth_tested(tree):
    """expressions whose *truthiness* is tested: conditions of if/while/conditional expressions/asserts, operands of not/and/or"""
    out = []

    def cond(e):
        if isinstance(e, ast.BoolOp):
            for v in e.values:
                cond(v)
        elif isinstance(e, ast.UnaryOp) and isinstance(e.op, ast.Not):
            cond(e.operand)
        else:
            out.append(e)
    for n in ast.walk(tree):
        if isinstance(n, (ast.If, ast.While, ast.IfExp, ast.Assert)):
            cond(n.test)
        elif isinstance(n, ast.comprehension):
            for i in n.ifs:
                cond(i)
    return out


def rule_cl_presence(cx, rep, port='py'):
    """an option to which the CLI itself assigns a falsy value as a legal setting (`args.delim = ''` for monocolumn) is tested for
    presence (`is None`), never for truthiness: otherwise the legal value is treated as missing and the CLI refuses a query that
    the library entry points run"""
    p = cx.py
    mod = p.modules['rbql_main']
    falsy = {}
    for n in ast.walk(mod):
        if isinstance(n, ast.Assign) and len(n.targets) == 1 and isinstance(n.targets[0], ast.Attribute) and dotted(n.targets[0].value) == 'args':
            v = const_value(n.value)
            if v is not NOCONST and v is not None and v is not False and not v:
                falsy.setdefault(n.targets[0].attr, n)
    rep.require_count('options with a falsy legal value', len(falsy), 1, (p.files['rbql_main'], 0))
    tested = [e for e in _truth_tested(mod) if isinstance(e, ast.Attribute) and dotted(e.value) == 'args' and e.attr in falsy]
    for attr, site in sorted(falsy.items()):
        bad = [e for e in tested if e.attr == attr]
        pres = [n for n in ast.walk(mod) if isinstance(n, ast.Compare) and dotted(n.left) == 'args.' + attr and isinstance(n.ops[0], (ast.Is, ast.IsNot)) and is_none(n.comparators[0])]
        if bad:
            fd = enclosing_func(bad[0])
            rep.violated('args.{} presence tests'.format(attr), bad[0], '`args.{}` is tested for truthiness in {} although line {} assigns it the legal value {!r}: that setting is treated as "option missing"'.format(attr, fd.name if fd is not None else '<module>', site.lineno, const_value(site.value)))
        else:
            rep.holds('args.{} presence tests'.format(attr), site, '{} presence tests, all `is None` / `is not None`'.format(len(pres)))
    # `x = args.o if args.o is not None else default`: the arm taken when the option is present is the option itself, the other one
    # is not (a flipped test hands None on when the option is missing and ignores it when it is given)
    n_sel = 0
    for e in ast.walk(mod):
        if not (isinstance(e, ast.IfExp) and isinstance(e.test, ast.Compare) and len(e.test.ops) == 1 and is_none(e.test.comparators[0]) and isinstance(e.test.ops[0], (ast.Is, ast.IsNot)) and (dotted(e.test.left) or '').startswith('args.')):
            continue
        opt = dotted(e.test.left)
        present, absent = (e.body, e.orelse) if isinstance(e.test.ops[0], ast.IsNot) else (e.orelse, e.body)
        uses = lambda x: any(dotted(y) == opt for y in ast.walk(x))  # noqa: E731
        if not (uses(present) or uses(absent)):
            continue
        n_sel += 1
        fd_ = enclosing_func(e)
        key = 'default of {} in {}'.format(opt, fd_.name if fd_ is not None else '<module>')
        if dotted(absent) == opt or (uses(absent) and not uses(present)):
            rep.violated(key, e, '`{}`: when {} is given it is replaced by the default, and when it is missing None is handed on: the command line ignores the option the library entry points honour'.format(node_text(e, 90), opt))
        else:
            rep.holds(key, e, 'the option when present, the default otherwise')
    rep.require_count('option-or-default selections', n_sel, 2, (p.files['rbql_main'], 0))


def rule_if_regfresh(cx, rep, port):
    """every table registry hands out a *new* iterator on each request: an iterator that is cached and handed out twice is shared by
    the input side and the join side of a self join (one cursor, one variable prefix), so that front-end answers differently"""
    p = cx.port(port)
    classes = set(k.split(':')[1] for k in p.classes) if isinstance(p.classes, dict) else set()
    n = 0
    for key, fd in sorted(p.funcs.items()):
        m, q = key.split(':')
        if not q.endswith('.get_iterator_by_table_id'):
            continue
        rets = [r for r in walk_no_nested(fd) if isinstance(r, ast.Return) and r.value is not None and not is_none(r.value)]
        if not rets:
            continue   # interface stub
        n += 1

        def is_ctor(e):
            return isinstance(e, ast.Call) and (dotted(e.func) or '').split('.')[-1] in classes
        bad = None
        for r in rets:
            v = r.value
            if is_ctor(v):
                continue
            d = dotted(v)
            if d is None:
                bad = (r, node_text(v, 60))
                break
            defs = [a for a in walk_no_nested(fd) if isinstance(a, (ast.Assign, ast.AugAssign)) and any(dotted(t) == d for t in (a.targets if isinstance(a, ast.Assign) else [a.target]))]
            nd = [a for a in defs if not is_ctor(a.value)]
            if not defs or nd:
                bad = (r, node_text(nd[0].value, 60) if nd else d + ' (not defined in this call)')
                break
        rep.decide(bad is None, '{}.{}'.format(m, q), fd, 'every returned iterator is constructed by this call', 'the registry can return `{}`, an iterator that was not constructed by this call: two requests (input side and join side of a self join, or two queries) then share one cursor/position and one variable prefix'.format(bad[1] if bad else ''))
    rep.require_count('table registries', n, 3 if port == 'py' else 2, (p.files[cx.engine_mod(port)], 0))


NAME_PARSERS = ('parse_dictionary_variables', 'parse_attribute_variables', 'map_variables_directly')
POS_PARSERS = ('parse_basic_variables', 'parse_array_variables')


def rule_if_varmap(cx, rep, port):
    """every iterator's get_variables_map registers the positional variables (a1, a[1]) always and the name-based ones (a.name,
    a["name"]) whenever the table has column names - and on nothing else (an empty table with names, a particular record count,
    a policy): otherwise the same query binds differently, or fails to parse, through one front end only.  Decided on the path
    summaries of each get_variables_map (helpers inlined)."""
    from .. import pathsem
    p = cx.port(port)
    n = 0
    emod = cx.engine_mod(port)
    memo = {}
    helper_paths = {}

    def effects(fname, depth=0):
        """parsers a helper of the engine module runs on *every* normal path (helpers the adapters call instead of the parsers)"""
        if fname in POS_PARSERS or fname in NAME_PARSERS:
            return {fname}
        if fname in memo:
            return memo[fname]
        memo[fname] = set()
        h = p.func(emod, fname, required=False)
        if h is None or depth > 3:
            return set()
        hps = pathsem.paths(h)
        if not hps:
            return set()
        per_path = []
        for q in hps:
            if q.kind == 'raise':
                continue
            got = set()
            exprs = list(q.calls) + [v for v in [q.value] if v is not None] + [v for _, v in q.stores] + list(q.env.values())
            for e_ in exprs:
                for x in ast.walk(e_):
                    if isinstance(x, ast.Call):
                        got |= effects((call_name(x) or '').split('.')[-1], depth + 1)
            # any name-based parser counts as "the" name-based registration
            if got & set(NAME_PARSERS):
                got |= {'<names>'}
            per_path.append(got)
        res = set.intersection(*per_path) if per_path else set()
        memo[fname] = res
        helper_paths[fname] = per_path
        return res

    def called(exprs):
        out = set()
        for e_ in exprs:
            for x in ast.walk(e_):
                if isinstance(x, ast.Call):
                    out |= effects((call_name(x) or '').split('.')[-1])
        if out & set(NAME_PARSERS):
            out |= {'<names>'}
        return out
    orders = {}
    for c in roles.iterators(p):
        ms = roles.methods(c)
        if 'get_variables_map' not in ms or c.name == 'RBQLInputIterator':
            continue
        fd = ms['get_variables_map']
        key = '{}.{}.get_variables_map'.format(c.modname, c.name)
        calls_all = [x for x in walk_no_nested(fd) if isinstance(x, ast.Call)]
        name_calls = [x for x in calls_all if '<names>' in called([x]) and not any('<names>' in called([y]) for y in ast.walk(x) if isinstance(y, ast.Call) and y is not x)]
        if not name_calls:
            rep.undecided(key, fd, 'no name-based variable parser is called: whether this iterator has column names at all is not decided here')
            continue
        ps = pathsem.paths(fd)
        if ps is None:
            rep.undecided(key, fd, 'get_variables_map is not summarisable as paths')
            continue
        n += 1
        # what stands for "the column names" in this class: the names argument of the parser calls, plus the header flag
        sources = {'self.has_header'}
        for x in name_calls:
            nm = (call_name(x) or '').split('.')[-1]
            if nm in NAME_PARSERS:
                arg = x.args[1] if nm == 'map_variables_directly' and len(x.args) > 1 else (x.args[2] if len(x.args) > 2 else None)
                if arg is not None:
                    sources.add(node_text(arg, 80))
            else:
                # a helper: any `self....` argument may be the names
                for a in x.args:
                    if (dotted(a) or '').startswith('self.') or (isinstance(a, ast.Call) and (call_name(a) or '').startswith('self.')):
                        sources.add(node_text(a, 80))

        def is_src(e):
            return node_text(e, 80) in sources

        def leaf(e):
            if is_src(e):
                return True
            if isinstance(e, ast.Compare) and len(e.ops) == 1 and is_src(e.left) and is_none(e.comparators[0]):
                return isinstance(e.ops[0], (ast.IsNot, ast.NotEq))
            return None
        bad = None
        ok_pos = True
        for q in ps:
            if q.kind != 'return':
                continue
            # order in which the bare column names and the positional variables are written into the same map (the later one wins
            # for a column that is itself called a1, a2, ...)
            seq = []
            for c_ in q.calls:
                eff = called([c_])
                if 'map_variables_directly' in eff:
                    seq.append('names')
                if eff & set(POS_PARSERS):
                    seq.append('pos')
            if 'names' in seq and 'pos' in seq:
                orders.setdefault('names last' if max(i for i, x in enumerate(seq) if x == 'names') > max(i for i, x in enumerate(seq) if x == 'pos') else 'positional last', []).append((key, q.node if q.node is not None else fd))
            did = called(list(q.calls) + [v for _, v in q.stores] + list(q.env.values()) + ([q.value] if q.value is not None else []))
            if not set(POS_PARSERS) <= did:
                ok_pos = False
            if '<names>' in did:
                # normalised names need both spellings (a.name and a["name"]); direct mode needs the bare names
                if not (did & set(NAME_PARSERS)):
                    # registered through a helper whose paths differ (normalised names on one path, bare names on the other): each of
                    # the helper's own paths must be complete
                    incomplete = [pp for hp in helper_paths.values() for pp in hp if (pp & set(NAME_PARSERS)) and 'map_variables_directly' not in pp and not {'parse_dictionary_variables', 'parse_attribute_variables'} <= pp]
                    if not incomplete:
                        continue
                if 'map_variables_directly' not in did and not {'parse_dictionary_variables', 'parse_attribute_variables'} <= did:
                    half = sorted({'parse_dictionary_variables', 'parse_attribute_variables'} - did)
                    rep.violated(key + ' both spellings', q.node if q.node is not None else fd, 'a path registers name-based variables without {}: one of the two spellings a.name / a["name"] is unknown through this front end only'.format(half[0]))
                    bad = 'reported'
                    break
                continue
            if pathsem.consistent(q, leaf):
                extra = [node_text(t_, 80) for t_, pol in q.conds if pathsem.eval_cond(t_, leaf) is None]
                bad = (q, extra)
                break
        rep.decide(ok_pos, key + ' positional', fd, 'a1 / a[1] style variables are registered on every path', 'a path of get_variables_map returns without registering the positional variables')
        if bad == 'reported':
            pass
        elif bad is not None:
            rep.violated(key + ' names', bad[0].node, 'with column names present the name-based variables (a.name, a["name"]) are still skipped when `{}`: the query then binds differently (or fails to parse) through this front end only'.format(' / '.join(bad[1]) or 'always'))
        else:
            rep.holds(key + ' names', fd, 'name-based variables are registered whenever {} is present, whatever else holds'.format(' / '.join(sorted(sources - {'self.has_header'})) or 'the header'))
    if len(orders) == 2:
        # siblings disagree: the same query over a column literally named a1 binds to different columns through different front ends
        # a tie is resolved by the convention of the tree this rule was written against: the column name wins (names written last)
        ranked = sorted(orders.items(), key=lambda kv: (len({k for k, _ in kv[1]}), kv[0] == 'names last'))
        minority, majority = ranked[0][1], ranked[-1][1]
        for k_, node_ in minority[:1]:
            rep.violated(k_ + ' collision order', node_, 'bare column names and positional variables are written into the variable map in the opposite order to {}: for a column that is itself called a1, a2, ... the same query selects a different column through this front end'.format(sorted({k for k, _ in majority})[0]))
    elif orders:
        rep.holds('collision order', (p.files[cx.engine_mod(port)], 0), 'every iterator writes bare column names and positional variables in the same order ({})'.format(list(orders)[0]))
    rep.require_count('iterators with name-based variables', n, 4 if port == 'py' else 2, (p.files[cx.engine_mod(port)], 0))


def rule_cl_options(cx, rep, port='py'):
    """every `args.<name>` the command line reads - in the entry point and in every function the parsed arguments are handed to - is
    an option that entry point's parser declares (or an attribute the code itself sets first).  A read of an undeclared option is an
    AttributeError at run time in that front end only, instead of the result the other front ends give.  Calls are followed with
    their constant arguments, so `run_interactive_loop('csv', args)` only reaches the csv runner."""
    p = cx.py
    if 'rbql_main' not in p.modules:
        raise Undecided('rbql_main missing')
    mod = p.modules['rbql_main']
    funcs = {st.name: st for st in mod.body if isinstance(st, ast.FunctionDef)}

    def declared(fd, depth=0):
        out = set()
        # the parser may be assembled by helpers the entry point calls
        if depth < 3:
            for c in ast.walk(fd):
                if isinstance(c, ast.Call) and isinstance(c.func, ast.Name) and c.func.id in funcs and funcs[c.func.id] is not fd:
                    g = funcs[c.func.id]
                    if any(isinstance(x, ast.Attribute) and x.attr in ('add_argument', 'ArgumentParser') for x in ast.walk(g)):
                        out |= declared(g, depth + 1)
        for c in ast.walk(fd):
            if isinstance(c, ast.Call) and isinstance(c.func, ast.Attribute) and c.func.attr == 'add_argument' and c.args:
                names = [a.value for a in c.args if isinstance(a, ast.Constant) and isinstance(a.value, str)]
                if not names:
                    continue
                dest = [k.value.value for k in c.keywords if k.arg == 'dest' and isinstance(k.value, ast.Constant)]
                longs = [n_ for n_ in names if n_.startswith('--')]
                out.add(dest[0] if dest else (longs[0][2:] if longs else names[0].lstrip('-')).replace('-', '_'))
        return out

    def truth(test, env):
        if isinstance(test, ast.Compare) and len(test.ops) == 1 and isinstance(test.left, ast.Constant) and isinstance(test.comparators[0], ast.Constant) and isinstance(test.ops[0], (ast.Eq, ast.Is, ast.NotEq, ast.IsNot)):
            a_, b_ = test.left.value, test.comparators[0].value        # a constant argument substituted for the parameter (inlined helper)
            eq = (a_ is b_) if (a_ is None or b_ is None or isinstance(a_, bool) or isinstance(b_, bool)) else a_ == b_
            return eq if isinstance(test.ops[0], (ast.Eq, ast.Is)) else not eq
        if isinstance(test, ast.Compare) and len(test.ops) == 1 and isinstance(test.left, ast.Name) and test.left.id in env and isinstance(test.comparators[0], ast.Constant):
            eq = env[test.left.id] == test.comparators[0].value
            if isinstance(test.ops[0], (ast.Eq, ast.Is)):
                return eq
            if isinstance(test.ops[0], (ast.NotEq, ast.IsNot)):
                return not eq
        return None

    def visit(fd, param, env, seen, reads, stores):
        def stmts(body):
            for st in body:
                if isinstance(st, ast.If):
                    v = truth(st.test, env)
                    expr(st.test)
                    if v is not False:
                        stmts(st.body)
                    if v is not True:
                        stmts(st.orelse)
                    continue
                for fld in ('body', 'orelse', 'finalbody'):
                    sub = getattr(st, fld, None)
                    if isinstance(sub, list) and sub and isinstance(sub[0], ast.stmt):
                        stmts(sub)
                for h in getattr(st, 'handlers', []) or []:
                    stmts(h.body)
                for fld, val in ast.iter_fields(st):
                    if fld in ('body', 'orelse', 'finalbody', 'handlers'):
                        continue
                    for x in (val if isinstance(val, list) else [val]):
                        if isinstance(x, ast.AST):
                            expr(x)

        def live_nodes(e):
            # the nodes of e that can be evaluated: a conditional expression whose test is decided by the constant arguments of this
            # call contributes its test and the live arm only
            yield e
            if isinstance(e, ast.IfExp):
                v = truth(e.test, env)
                for x in live_nodes(e.test):
                    yield x
                if v is not False:
                    for x in live_nodes(e.body):
                        yield x
                if v is not True:
                    for x in live_nodes(e.orelse):
                        yield x
                return
            for c_ in ast.iter_child_nodes(e):
                for x in live_nodes(c_):
                    yield x

        def expr(e):
            for n in live_nodes(e):
                if isinstance(n, ast.Attribute) and isinstance(n.value, ast.Name) and n.value.id == param:
                    (stores if isinstance(n.ctx, ast.Store) else reads).setdefault(n.attr, []).append(n)
                if isinstance(n, ast.Call) and isinstance(n.func, ast.Name) and n.func.id in funcs:
                    g = funcs[n.func.id]
                    gparams = [a.arg for a in g.args.args]
                    env2 = {}
                    target = None
                    for i, a in enumerate(n.args):
                        if i >= len(gparams):
                            break
                        if isinstance(a, ast.Constant):
                            env2[gparams[i]] = a.value
                        if isinstance(a, ast.Name) and a.id == param:
                            target = gparams[i]
                    for k in n.keywords:
                        if isinstance(k.value, ast.Constant) and k.arg:
                            env2[k.arg] = k.value.value
                        if isinstance(k.value, ast.Name) and k.value.id == param and k.arg:
                            target = k.arg
                    key = (g.name, target, tuple(sorted((k_, repr(v_)) for k_, v_ in env2.items())))
                    if target is not None and key not in seen:
                        seen.add(key)
                        visit(g, target, env2, seen, reads, stores)
        stmts(fd.body)
    n = 0
    for entry in ('csv_main', 'sqlite_main'):
        fd = funcs.get(entry)
        if fd is None:
            raise Undecided('anchor vanished: rbql_main.' + entry, mod.body[0])
        argsvar = [t.id for st in fd.body if isinstance(st, ast.Assign) and isinstance(st.value, ast.Call) and isinstance(st.value.func, ast.Attribute) and st.value.func.attr == 'parse_args' for t in st.targets if isinstance(t, ast.Name)]
        if len(argsvar) != 1:
            rep.undecided(entry + ' options', fd, 'parse_args() result not found')
            continue
        decl = declared(fd)
        if not decl:
            rep.undecided(entry + ' options', fd, 'no add_argument() declaration found for the parser of ' + entry)
            continue
        reads, stores = {}, {}
        visit(fd, argsvar[0], {}, set(), reads, stores)
        n += len(reads)
        missing = sorted(k for k in reads if k not in decl and k not in stores)
        if missing:
            nd = reads[missing[0]][0]
            rep.violated(entry + ' options', nd, '`args.{}` is read on the path from {}() but its parser declares no such option ({} declared): the command line fails with an AttributeError there'.format(missing[0], entry, len(decl)))
        else:
            rep.holds(entry + ' options', fd, '{} option attributes read, all declared by the parser or set by the code ({} declared)'.format(len(reads), len(decl)))
    rep.require_count('option reads', n, 20, (p.files['rbql_main'], 0))


def rule_if_eot(cx, rep, port='py'):
    """adapters that pull rows from a cursor / iterator report the end of the table exactly when the source does: get_record returns
    None on the path where fetchone() gave None (fetchmany() gave nothing, next() was exhausted).  A path that returns None on
    another ground - e.g. "the last batch was shorter than the batch size" - is sound only while that yardstick cannot change
    between reads; if other code assigns it, rows are silently cut off."""
    from .. import pathsem
    p = cx.py
    n = 0
    for modname, cname in (('rbql_sqlite', 'SqliteRecordIterator'), ('rbql_pandas', 'DataframeIterator')):
        c = p.cls(modname, cname, required=False)
        if c is None:
            continue
        ms = roles.methods(c)
        gr = ms.get('get_record')
        if gr is None:
            continue
        n += 1
        key = '{}.get_record end of table'.format(cname)
        ps = pathsem.paths(gr)
        if ps is None:
            rep.undecided(key, gr, 'get_record is not summarisable as paths')
            continue
        suspicious = None
        for q in ps:
            if not (q.kind == 'return' and (q.value is None or is_none(q.value))):
                continue
            grounds_ok = False
            for atom, pol in pathsem.atoms(q.conds):
                t = node_text(atom, 300)
                if isinstance(atom, ast.Compare) and len(atom.ops) == 1 and is_none(atom.comparators[0]) and pol == isinstance(atom.ops[0], (ast.Is, ast.Eq)) and ('fetchone' in t or 'next(' in t):
                    grounds_ok = True
                if ('fetchmany' in t or 'fetchall' in t) and not any(isinstance(x, ast.Attribute) and x.attr.endswith('size') for x in ast.walk(atom)):
                    grounds_ok = True
                # next(it, SENTINEL) is SENTINEL
                if isinstance(atom, ast.Compare) and len(atom.ops) == 1 and isinstance(atom.ops[0], (ast.Is, ast.Eq)) and pol:
                    for a_, b_ in ((atom.left, atom.comparators[0]), (atom.comparators[0], atom.left)):
                        if isinstance(a_, ast.Call) and dotted(a_.func) == 'next' and len(a_.args) == 2 and ast.dump(a_.args[1]) == ast.dump(b_):
                            grounds_ok = True
                if q.in_handler and 'StopIteration' in ' '.join(q.in_handler):
                    grounds_ok = True
            if q.in_handler and 'StopIteration' in ' '.join(q.in_handler):
                grounds_ok = True
            if not grounds_ok:
                # which attributes decide this path?
                attrs = sorted({dotted(x) for t_, _ in q.conds for x in ast.walk(t_) if isinstance(x, ast.Attribute) and (dotted(x) or '').startswith('self.') and not isinstance(getattr(x, 'parent', None), ast.Attribute)})
                suspicious = (q, attrs)
                break
        if suspicious is None:
            rep.holds(key, gr, 'None is returned only where the source reported its end')
            continue
        q, attrs = suspicious
        # is one of the deciding attributes assigned from outside the class (after construction)?
        outside = []
        for mname2, mod2 in p.modules.items():
            for st in ast.walk(mod2):
                if isinstance(st, ast.Assign):
                    for t_ in st.targets:
                        if isinstance(t_, ast.Attribute) and ('self.' + t_.attr) in attrs and not (isinstance(t_.value, ast.Name) and t_.value.id == 'self'):
                            outside.append((t_.attr, st))
        if outside:
            rep.violated(key, q.node if q.node is not None else gr, 'get_record reports the end of the table when `{}`, and `{}` is assigned from outside the iterator (line {}) after rows may already have been read: a full batch then counts as a short one and the rest of the table is silently dropped'.format(' / '.join(node_text(t_, 50) for t_, _ in q.conds[-2:]), outside[0][0], outside[0][1].lineno))
        else:
            rep.undecided(key, q.node if q.node is not None else gr, 'get_record returns None on a path decided by {} rather than by the source reporting its end'.format(attrs))
    rep.require_count('cursor-backed iterators', n, 2, (p.files['rbql_engine'], 0))


def rule_if_errclass(cx, rep, port='js'):
    """javascript: errors are classified ("query parsing", "query execution", "IO handling", ...) by the *name* of their class.  The CSV
    layer defines its own class with the same name as the engine's (RbqlIOHandlingError in rbql_csv.js and in rbql.js): an `instanceof`
    test against the engine's class is false for the other module's errors, which would then be reported as "unexpected"."""
    p = cx.js
    mod = cx.engine_mod('js')
    fd = p.func(mod, 'exception_to_error_info', required=False)
    if fd is None:
        raise Undecided('anchor vanished: exception_to_error_info', (p.files[mod], 0))
    defined = {}
    for mname in p.modules:
        for c in p.classes_in(mname):
            if c.name.endswith('Error'):
                defined.setdefault(c.name, set()).add(mname)
    dup = {n for n, ms_ in defined.items() if len(ms_) > 1}
    e = fd.args.args[0].arg if fd.args.args else None
    inst = [c for c in ast.walk(fd) if isinstance(c, ast.Call) and dotted(c.func) == 'isinstance' and len(c.args) == 2 and is_name(c.args[0], e)]
    named = [x for x in ast.walk(fd) if isinstance(x, ast.Name) and isinstance(x.ctx, ast.Load) and x.id in dup]
    by_name = [x for x in ast.walk(fd) if isinstance(x, ast.Attribute) and x.attr == 'name']
    if inst and named:
        rep.violated('error classification', inst[0], 'errors are classified with instanceof against {}, but {} is also defined in {}: an error raised there as its own class of that name is reported as "unexpected" instead of its kind'.format(named[0].id, named[0].id, ' and '.join(sorted(defined[named[0].id] - {mod}))))
    elif by_name and not inst:
        rep.holds('error classification', fd, 'errors are classified by the name of their class ({} class name(s) are defined in more than one module)'.format(len(dup)))
    else:
        rep.undecided('error classification', fd, 'how errors are classified was not recognised')


def rule_if_finishpath(cx, rep, port):
    """query(): the writer chain is finished on the success path only.  Finishing it from a `finally` (or an error handler) runs the
    writers' finish() on a half-built state after a failed query; whatever that raises replaces the query's own error, so the error
    class the caller sees (parsing / execution / IO) changes"""
    p = cx.port(port)
    mod = cx.engine_mod(port)
    fd = p.func(mod, 'query')
    fins = [c for c in ast.walk(fd) if isinstance(c, ast.Call) and isinstance(c.func, ast.Attribute) and c.func.attr == 'finish' and (dotted(c.func.value) or '').endswith('writer')]
    if not fins:
        rep.undecided('writer finish', fd, 'no call of the writer chain\'s finish() found in query()')
        return
    bad = None
    for c in fins:
        q = getattr(c, 'parent', None)
        prev = c
        while q is not None and q is not fd:
            if isinstance(q, ast.Try) and (any(prev is x for x in q.finalbody) or any(prev is h for h in q.handlers)):
                bad = (c, 'finally' if any(prev is x for x in q.finalbody) else 'except')
            prev, q = q, getattr(q, 'parent', None)
    if bad:
        rep.violated('writer finish', bad[0], 'query() calls the writer chain\'s finish() from a `{}` block: after a failed query the writers are finished on incomplete state, and an error raised there replaces the error of the query (its class - parsing / execution / IO - is lost)'.format(bad[1]))
    else:
        rep.holds('writer finish', fins[0], 'finish() is called on the success path only')


def rule_cl_delim(cx, rep, port='py'):
    """the command line hands the delimiter to the library as typed, except for the two spellings of TAB: any other text - a non-ASCII
    character, a backslash - is the delimiter itself.  `unicode_escape` decoding re-reads the characters as latin-1 bytes and eats
    backslashes, so the CLI would split on something else than query_csv() with the same argument."""
    from .. import pathsem
    p = cx.py
    fd = p.func('rbql_csv', 'normalize_delim', required=False)
    if fd is None or not fd.args.args:
        raise Undecided('anchor vanished: rbql_csv.normalize_delim(delim)', (p.files['rbql_csv'], 0))
    prm = fd.args.args[0].arg
    ps = pathsem.paths(fd)
    if ps is None:
        rep.undecided('delimiter normalisation', fd, 'normalize_delim is not summarisable as paths')
        return
    rets = [q for q in ps if q.kind == 'return' and q.value is not None]
    ident = [q for q in rets if is_name(q.value, prm)]
    tabs = [q for q in rets if isinstance(q.value, ast.Constant) and q.value.value == '\t']
    other = [q for q in rets if q not in ident and q not in tabs]
    lossy = [q for q in other if any(isinstance(x, ast.Constant) and x.value in ('unicode_escape', 'unicode-escape', 'string_escape', 'raw_unicode_escape') for x in ast.walk(q.value))]
    if lossy:
        rep.violated('delimiter normalisation', lossy[0].node, 'delimiters other than the TAB spellings are passed through `{}`: a non-ASCII delimiter is re-read as latin-1 bytes and a backslash is swallowed, so the command line splits on a different text than the library called with the same delimiter'.format(node_text(lossy[0].value, 60)))
    elif other or not ident:
        rep.undecided('delimiter normalisation', (other[0].node if other else fd), 'a delimiter is rewritten in a way that was not recognised')
    else:
        rep.holds('delimiter normalisation', fd, 'TAB / \\\\t become a tab character ({} path(s)), every other delimiter is passed on unchanged'.format(len(tabs)))
