"""Regular-language reasoning (DESIGN.md 3.5): regex source -> (re._parser) -> NFA over a symbolic interval
alphabet -> DFA; language equality / inclusion with a shortest counterexample.

Only the regular core is supported (literals, classes, ., alternation, groups, greedy/lazy repeats);
anchors at the very beginning/end are stripped (the language is that of a *full* match of the body);
look-arounds, back-references and inner anchors raise Unsupported.  Nothing is matched against data.
"""
import re
import warnings

try:
    import re._parser as sre_parse
    import re._constants as sre_c
except ImportError:  # python < 3.11
    import sre_parse
    import sre_constants as sre_c

MAXCP = 0x10FFFF


class Unsupported(Exception):
    pass


def parse(pattern, flags=0):
    with warnings.catch_warnings():
        warnings.simplefilter('ignore')
        try:
            return sre_parse.parse(pattern, flags)
        except re.error as e:
            raise Unsupported('regex does not parse: {}'.format(e))


def js_to_py(pattern):
    """Flavour translation of the few tokens that differ (the repository's JS regexes use none of the others)."""
    out = pattern.replace('\\/', '/')
    return out


# ---- character sets as sorted lists of disjoint closed intervals
def cs_norm(iv):
    iv = sorted(iv)
    out = []
    for a, b in iv:
        if out and a <= out[-1][1] + 1:
            out[-1] = (out[-1][0], max(out[-1][1], b))
        else:
            out.append((a, b))
    return out


def cs_neg(iv):
    out = []
    prev = 0
    for a, b in cs_norm(iv):
        if a > prev:
            out.append((prev, a - 1))
        prev = b + 1
    if prev <= MAXCP:
        out.append((prev, MAXCP))
    return out


CATEGORY_SETS = {
    'CATEGORY_DIGIT': [(48, 57)],
    'CATEGORY_SPACE': [(9, 13), (32, 32)],
    'CATEGORY_WORD': [(48, 57), (65, 90), (95, 95), (97, 122)],
}


def charset_of(op, av, ignorecase=False, dotall=False):
    name = str(op)
    if name == 'LITERAL':
        s = [(av, av)]
    elif name == 'NOT_LITERAL':
        s = cs_neg([(av, av)])
    elif name == 'ANY':
        s = [(0, MAXCP)] if dotall else cs_neg([(10, 10)])
    elif name == 'IN':
        items = []
        negate = False
        for iop, iav in av:
            iname = str(iop)
            if iname == 'NEGATE':
                negate = True
            elif iname == 'LITERAL':
                items.append((iav, iav))
            elif iname == 'RANGE':
                items.append((iav[0], iav[1]))
            elif iname == 'CATEGORY':
                cname = str(iav)
                pos = cname.replace('_NOT_', '_')
                if pos not in CATEGORY_SETS:
                    raise Unsupported('category ' + cname)
                cs = CATEGORY_SETS[pos]  # ASCII approximation, stated in the trusted base
                items.extend(cs_neg(cs) if '_NOT_' in cname else cs)
            else:
                raise Unsupported('class item ' + iname)
        s = cs_norm(items)
        if negate:
            s = cs_neg(s)
    else:
        raise Unsupported(name)
    if ignorecase:
        extra = []
        for a, b in s:
            if b - a > 300:
                continue
            for c in range(a, b + 1):
                ch = chr(c)
                for v in (ch.lower(), ch.upper()):
                    if len(v) == 1 and ord(v) != c:
                        extra.append((ord(v), ord(v)))
        s = cs_norm(s + extra)
    return s


class NFA(object):
    def __init__(self):
        self.n = 0
        self.eps = {}
        self.trans = {}   # state -> list of (charset, target)

    def new(self):
        self.n += 1
        return self.n - 1

    def add_eps(self, a, b):
        self.eps.setdefault(a, set()).add(b)

    def add(self, a, cs, b):
        self.trans.setdefault(a, []).append((cs, b))


def build_nfa(tree, flags=0):
    nfa = NFA()
    ic = bool(flags & re.IGNORECASE)
    dotall = bool(flags & re.DOTALL)
    items = list(tree)
    # strip leading ^ and trailing $
    while items and str(items[0][0]) == 'AT' and str(items[0][1]) in ('AT_BEGINNING', 'AT_BEGINNING_STRING'):
        items = items[1:]
    while items and str(items[-1][0]) == 'AT' and str(items[-1][1]) in ('AT_END', 'AT_END_STRING'):
        items = items[:-1]

    def seq(items, start):
        cur = start
        for op, av in items:
            cur = one(op, av, cur)
        return cur

    def one(op, av, start):
        name = str(op)
        if name in ('LITERAL', 'NOT_LITERAL', 'ANY', 'IN'):
            end = nfa.new()
            nfa.add(start, charset_of(op, av, ic, dotall), end)
            return end
        if name == 'SUBPATTERN':
            # av = (group, add_flags, del_flags, pattern)
            sub = av[-1]
            return seq(list(sub), start)
        if name == 'BRANCH':
            end = nfa.new()
            for alt in av[1]:
                s = nfa.new()
                nfa.add_eps(start, s)
                e = seq(list(alt), s)
                nfa.add_eps(e, end)
            return end
        if name in ('MAX_REPEAT', 'MIN_REPEAT', 'POSSESSIVE_REPEAT'):
            lo, hi, sub = av
            cur = start
            for _ in range(lo):
                cur = seq(list(sub), cur)
            if str(hi) == 'MAXREPEAT' or hi == sre_c.MAXREPEAT:
                loop_s = nfa.new()
                nfa.add_eps(cur, loop_s)
                loop_e = seq(list(sub), loop_s)
                nfa.add_eps(loop_e, loop_s)
                end = nfa.new()
                nfa.add_eps(loop_s, end)
                return end
            end = nfa.new()
            nfa.add_eps(cur, end)
            for _ in range(hi - lo):
                cur = seq(list(sub), cur)
                nfa.add_eps(cur, end)
            return end
        if name == 'AT':
            raise Unsupported('inner anchor ' + str(av))
        if name in ('ASSERT', 'ASSERT_NOT'):
            raise Unsupported('look-around')
        if name == 'GROUPREF':
            raise Unsupported('back-reference')
        raise Unsupported(name)

    s0 = nfa.new()
    end = seq(items, s0)
    return nfa, s0, end


def boundaries(nfas):
    pts = {0, MAXCP + 1}
    for nfa in nfas:
        for lst in nfa.trans.values():
            for cs, _ in lst:
                for a, b in cs:
                    pts.add(a)
                    pts.add(b + 1)
    pts = sorted(pts)
    return [(pts[i], pts[i + 1] - 1) for i in range(len(pts) - 1)]


def in_cs(cs, c):
    for a, b in cs:
        if a <= c <= b:
            return True
    return False


class DFA(object):
    def __init__(self, nfa, s0, acc, alphabet):
        self.alphabet = alphabet
        self.start = None
        self.trans = {}
        self.accept = set()
        self._build(nfa, s0, acc)

    def _closure(self, nfa, states):
        stack = list(states)
        seen = set(states)
        while stack:
            s = stack.pop()
            for t in nfa.eps.get(s, ()):
                if t not in seen:
                    seen.add(t)
                    stack.append(t)
        return frozenset(seen)

    def _build(self, nfa, s0, acc):
        start = self._closure(nfa, {s0})
        self.start = start
        work = [start]
        seen = {start}
        while work:
            S = work.pop()
            if acc in S:
                self.accept.add(S)
            for i, (a, b) in enumerate(self.alphabet):
                tgt = set()
                for s in S:
                    for cs, t in nfa.trans.get(s, ()):
                        if in_cs(cs, a):
                            tgt.add(t)
                T = self._closure(nfa, tgt) if tgt else frozenset()
                self.trans[(S, i)] = T
                if T not in seen:
                    seen.add(T)
                    work.append(T)
        self.states = seen


class Lang(object):
    def __init__(self, pattern, flags=0, flavour='py', label=None):
        self.pattern = pattern
        self.flags = flags
        self.label = label or pattern
        src = js_to_py(pattern) if flavour == 'js' else pattern
        self.tree = parse(src, flags)
        self.nfa, self.s0, self.acc = build_nfa(self.tree, flags | self.tree.state.flags)


def _repr_char(iv, avoid=()):
    a, b = iv
    # prefer a printable representative
    for c in list(range(max(a, 97), min(b, 122) + 1)) + list(range(max(a, 33), min(b, 126) + 1)) + [a]:
        if a <= c <= b:
            return chr(c)
    return chr(a)


def compare(l1, l2):
    """Returns (equal, only_in_1, only_in_2) where only_in_* are shortest witness strings or None."""
    alpha = boundaries([l1.nfa, l2.nfa])
    d1 = DFA(l1.nfa, l1.s0, l1.acc, alpha)
    d2 = DFA(l2.nfa, l2.s0, l2.acc, alpha)
    from collections import deque
    start = (d1.start, d2.start)
    prev = {start: None}
    dq = deque([start])
    w1 = w2 = None
    while dq and (w1 is None or w2 is None):
        S = dq.popleft()
        a1, a2 = S[0] in d1.accept, S[1] in d2.accept
        if a1 and not a2 and w1 is None:
            w1 = _word(prev, S, alpha)
        if a2 and not a1 and w2 is None:
            w2 = _word(prev, S, alpha)
        for i in range(len(alpha)):
            T = (d1.trans[(S[0], i)], d2.trans[(S[1], i)])
            if T not in prev:
                prev[T] = (S, i)
                dq.append(T)
    return (w1 is None and w2 is None), w1, w2


def _word(prev, S, alpha):
    out = []
    while prev[S] is not None:
        S, i = prev[S]
        out.append(_repr_char(alpha[i]))
    return ''.join(reversed(out))


def equal(l1, l2):
    return compare(l1, l2)[0]


def subset(l1, l2):
    """L(l1) subset of L(l2)?  returns (bool, witness in l1 \\ l2)"""
    eq, w1, w2 = compare(l1, l2)
    return (w1 is None), w1


def accepts(lang, s):
    alpha = boundaries([lang.nfa])
    d = DFA(lang.nfa, lang.s0, lang.acc, alpha)
    S = d.start
    for ch in s:
        c = ord(ch)
        idx = None
        for i, (a, b) in enumerate(alpha):
            if a <= c <= b:
                idx = i
                break
        S = d.trans[(S, idx)]
    return S in d.accept


def has_lazy(tree):
    for op, av in tree:
        name = str(op)
        if name == 'MIN_REPEAT':
            return True
        if name in ('MAX_REPEAT',):
            if has_lazy(av[2]):
                return True
        if name == 'SUBPATTERN' and has_lazy(av[-1]):
            return True
        if name == 'BRANCH':
            for alt in av[1]:
                if has_lazy(alt):
                    return True
    return False
