"""Undoing pure local renamings.

The rule tables name the repository's local variables as they are spelled today (`field_num`, `zero_based_idx`, `qci`, ...).
A behaviour-preserving renaming of locals must not change any verdict, so every function is compared with a reference *alpha
skeleton* (sa/alpha_ref.json: for each function the names it binds, in order of first binding, and a hash of the function with
those names replaced by positions).  If the current function is alpha-equivalent to the reference (same hash) but spells its
locals differently, the analysis works on a copy in which the reference spelling is restored.  If the function differs in any
other way nothing is renamed.  The reference never decides a verdict; it only canonicalises spelling.
"""
import ast
import hashlib
import json
import os

REF = os.path.join(os.path.dirname(os.path.abspath(__file__)), 'alpha_ref.json')


def bound_in(fd):
    """names bound inside fd (parameters, assignment / loop / comprehension / with / except targets, nested function parameters),
    in order of first occurrence"""
    order = []
    seen = set()
    globs = set()
    for n in ast.walk(fd):
        if isinstance(n, (ast.Global, ast.Nonlocal)):
            globs |= set(n.names)

    def add(x):
        if x not in seen and x not in globs and x != 'self':
            seen.add(x)
            order.append(x)
    for n in _walk_ordered(fd):
        if isinstance(n, ast.arg):
            add(n.arg)
        elif isinstance(n, ast.Name) and isinstance(n.ctx, (ast.Store, ast.Del)):
            add(n.id)
        elif isinstance(n, ast.ExceptHandler) and n.name:
            add(n.name)
        elif isinstance(n, (ast.FunctionDef, ast.AsyncFunctionDef)) and n is not fd:
            add(n.name)     # nested definitions are local bindings too (the JS front end names hoisted closures by position)
    return order


def _walk_ordered(node):
    yield node
    for ch in ast.iter_child_nodes(node):
        for x in _walk_ordered(ch):
            yield x


class _Ren(ast.NodeTransformer):
    def __init__(self, mapping):
        self.m = mapping

    def visit_Name(self, node):
        if node.id in self.m:
            node.id = self.m[node.id]
        return node

    def visit_arg(self, node):
        if node.arg in self.m:
            node.arg = self.m[node.arg]
        return node

    def visit_FunctionDef(self, node):
        if node.name in self.m:
            node.name = self.m[node.name]
        self.generic_visit(node)
        return node

    def visit_ExceptHandler(self, node):
        if node.name and node.name in self.m:
            node.name = self.m[node.name]
        self.generic_visit(node)
        return node


def skeleton_hash(fd, names):
    import copy
    mapping = {n: '_V{}'.format(i) for i, n in enumerate(names)}
    twin = _copy(fd)
    twin.name = '_f'
    _Ren(mapping).visit(twin)
    dump = ast.dump(twin, annotate_fields=False, include_attributes=False)
    return hashlib.sha1(dump.encode('utf-8')).hexdigest()


def _copy(n):
    if isinstance(n, list):
        return [_copy(x) for x in n]
    if not isinstance(n, ast.AST):
        return n
    new = type(n)()
    for f in n._fields:
        if hasattr(n, f):
            setattr(new, f, _copy(getattr(n, f)))
    return new


def top_functions(mod):
    """(qualname, FunctionDef) for module-level functions and methods of module-level classes (nested functions belong to their parent)"""
    for st in mod.body:
        if isinstance(st, (ast.FunctionDef, ast.AsyncFunctionDef)):
            yield st.name, st
        elif isinstance(st, ast.ClassDef):
            for m in st.body:
                if isinstance(m, (ast.FunctionDef, ast.AsyncFunctionDef)):
                    yield '{}.{}'.format(st.name, m.name), m


def compute(port):
    out = {}
    for mname, mod in port.modules.items():
        for q, fd in top_functions(mod):
            names = bound_in(fd)
            out['{}:{}'.format(mname, q)] = {'names': names, 'hash': skeleton_hash(fd, names)}
    return out


def load_ref():
    if not os.path.exists(REF):
        return {}
    with open(REF) as f:
        return json.load(f)


def canonicalise(port):
    """restore the reference spelling of locals in every function that is alpha-equivalent to its reference; returns the list of
    functions that were renamed (reported in the evidence)"""
    ref = load_ref().get(port.name, {})
    renamed = []
    for mname, mod in port.modules.items():
        for q, fd in top_functions(mod):
            r = ref.get('{}:{}'.format(mname, q))
            if not r:
                continue
            names = bound_in(fd)
            if names == r['names'] or len(names) != len(r['names']):
                continue
            if skeleton_hash(fd, names) != r['hash']:
                continue
            mapping = {a: b for a, b in zip(names, r['names']) if a != b}
            # two-step renaming through temporaries avoids collisions (a->b while b->a)
            tmp = {a: '__alpha_tmp_{}'.format(i) for i, a in enumerate(mapping)}
            _Ren(tmp).visit(fd)
            _Ren({tmp[a]: b for a, b in mapping.items()}).visit(fd)
            renamed.append('{}:{} {}'.format(mname, q, mapping))
    return renamed
