"""Tiny rational-function normal form over named symbols (exact arithmetic with Fractions).

Used to compare accumulator update formulas and final-value formulas with their mathematical reference *up to algebraic
identity* (so `s / n - (m / n) ** 2` and `s / n - avg * avg` with avg = m / n are equal; a sample-variance `n - 1` is not).
Equality of a/b and c/d is decided as a*d == c*b on polynomial normal forms.  No repository code is evaluated: expressions are
translated from the AST.
"""
from fractions import Fraction


class Poly(object):
    __slots__ = ('terms',)

    def __init__(self, terms=None):
        self.terms = {k: v for k, v in (terms or {}).items() if v != 0}

    @staticmethod
    def const(c):
        return Poly({(): Fraction(c)})

    @staticmethod
    def sym(name):
        return Poly({((name, 1),): Fraction(1)})

    def __add__(self, o):
        t = dict(self.terms)
        for k, v in o.terms.items():
            t[k] = t.get(k, 0) + v
        return Poly(t)

    def __neg__(self):
        return Poly({k: -v for k, v in self.terms.items()})

    def __sub__(self, o):
        return self + (-o)

    def __mul__(self, o):
        t = {}
        for k1, v1 in self.terms.items():
            for k2, v2 in o.terms.items():
                d = dict(k1)
                for s, e in k2:
                    d[s] = d.get(s, 0) + e
                k = tuple(sorted((s, e) for s, e in d.items() if e))
                t[k] = t.get(k, 0) + v1 * v2
        return Poly(t)

    def __eq__(self, o):
        return isinstance(o, Poly) and self.terms == o.terms

    def __hash__(self):
        return hash(tuple(sorted(self.terms.items())))

    def is_zero(self):
        return not self.terms

    def __repr__(self):
        if not self.terms:
            return '0'
        parts = []
        for k, v in sorted(self.terms.items()):
            mon = '*'.join(s if e == 1 else '{}^{}'.format(s, e) for s, e in k)
            parts.append('{}{}'.format(v if (v != 1 or not mon) else '', ('*' if (v != 1 and mon) else '') + mon))
        return ' + '.join(parts)


class Rat(object):
    __slots__ = ('num', 'den')

    def __init__(self, num, den=None):
        self.num = num
        self.den = den if den is not None else Poly.const(1)

    @staticmethod
    def const(c):
        return Rat(Poly.const(c))

    @staticmethod
    def sym(name):
        return Rat(Poly.sym(name))

    def __add__(self, o):
        return Rat(self.num * o.den + o.num * self.den, self.den * o.den)

    def __sub__(self, o):
        return Rat(self.num * o.den - o.num * self.den, self.den * o.den)

    def __mul__(self, o):
        return Rat(self.num * o.num, self.den * o.den)

    def __truediv__(self, o):
        return Rat(self.num * o.den, self.den * o.num)

    def __neg__(self):
        return Rat(-self.num, self.den)

    def __pow__(self, n):
        r = Rat.const(1)
        for _ in range(n):
            r = r * self
        return r

    def equals(self, o):
        return (self.num * o.den - o.num * self.den).is_zero()

    def __repr__(self):
        if self.den == Poly.const(1):
            return repr(self.num)
        return '({}) / ({})'.format(self.num, self.den)
