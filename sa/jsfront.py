"""JavaScript front-end: ESTree (from Node's bundled acorn, see jsast.js) lowered to Python `ast` nodes.

The lowered tree *is* the language-neutral IR of DESIGN.md section 3.1: the node vocabulary of
Python's `ast` module.  Every rule, the CFG builder, the partial evaluator and the ownership
analysis are written once over `ast` nodes and run on both ports.

Nothing under /repo is executed: Node is only used as a parser (`jsast.js` never `require`s a
repository file).

Lowering conventions (each lowered node carries `lineno`/`col_offset` of its JS origin and,
where useful, a `js` attribute with the ESTree type):
  let/const/var x = e            -> Assign([Name x], e)            (.js_kind = 'let'|'const'|'var')
  function f(a, b=1) {..}        -> FunctionDef                     (.is_async)
  class C extends B { m(){} }    -> ClassDef(bases=[B]); constructor -> __init__; methods get `self`
  this                           -> Name('self')
  x.length                       -> Call(Name('len'), [x])
  a === b / a == b               -> Compare Eq (Is when one side is null/undefined)
  a !== b / a != b               -> Compare NotEq (IsNot when one side is null/undefined)
  !a, a && b, a || b             -> UnaryOp Not, BoolOp And/Or
  c ? a : b                      -> IfExp
  new C(a)                       -> Call(Name C, [a])              (.is_new = True)
  await e                        -> e                               (.awaited = True)
  throw e                        -> Raise(e)
  assert(c, m);                  -> Assert(c, m)   (the helper `function assert` itself is named __assert__)
  try {..} catch (e) {..}        -> Try with one catch-all ExceptHandler(name=e)
  for (let i = A; i < B; i++)    -> For(i, range(A, B))             (canonical counting loops)
  other for(;;)                  -> init; While(test, body + update) (update re-inserted before `continue`)
  for (x of y)                   -> For(x, y)
  x++ / x += 1                   -> AugAssign
  (x = e) inside an expression   -> NamedExpr
  `a${b}c`                       -> JoinedStr; template without substitutions -> Constant(str) (.is_template)
  /re/flags                      -> Call(Name('__regex__'), [Constant(pattern), Constant(flags)])
  typeof x, x instanceof C       -> Call(Name('typeof'), [x]), Call(Name('isinstance'), [x, C])
  arrow / function expressions   -> Lambda when the body is an expression, otherwise hoisted to a
                                    FunctionDef `__fn_<line>_<col>` placed before the enclosing statement
  (function(exports){..}(..))    -> the IIFE body becomes module level (module wrapper idiom)
  [a, ...b]                      -> List with Starred ; {k: v} -> Dict with Constant keys
"""
import ast
import copy
import json
import os
import subprocess

HERE = os.path.dirname(os.path.abspath(__file__))


class JSParseError(Exception):
    pass


def run_node_parser(items):
    """items: list of dicts {name, path}|{name, text}.  Returns {name: estree}, raising JSParseError."""
    node = os.environ.get('RBQL_VERIF_NODE', 'node')
    try:
        proc = subprocess.run([node, '--expose-internals', os.path.join(HERE, 'jsast.js')], input=json.dumps(items).encode('utf-8'), stdout=subprocess.PIPE, stderr=subprocess.PIPE, timeout=120)
    except (OSError, subprocess.TimeoutExpired) as e:
        raise JSParseError('cannot run node: {}'.format(e))
    if proc.returncode != 0:
        raise JSParseError('node exited {}: {}'.format(proc.returncode, proc.stderr.decode('utf-8', 'replace')[:500]))
    out = json.loads(proc.stdout.decode('utf-8'))
    if not out.get('__parser__'):
        raise JSParseError('no JavaScript parser (acorn/esprima) could be loaded')
    res = {}
    for it in items:
        r = out.get(it['name'])
        if r is None or 'error' in r:
            raise JSParseError('{}: {}'.format(it['name'], (r or {}).get('error', 'missing')))
        res[it['name']] = r['ast']
    res['__parser__'] = out['__parser__']
    return res


_BINOPS = {'+': ast.Add, '-': ast.Sub, '*': ast.Mult, '/': ast.Div, '%': ast.Mod, '**': ast.Pow, '|': ast.BitOr, '&': ast.BitAnd, '^': ast.BitXor, '<<': ast.LShift, '>>': ast.RShift, '>>>': ast.RShift}
_CMPOPS = {'<': ast.Lt, '<=': ast.LtE, '>': ast.Gt, '>=': ast.GtE, '==': ast.Eq, '===': ast.Eq, '!=': ast.NotEq, '!==': ast.NotEq, 'in': ast.In}


class Lowerer:
    def __init__(self, filename):
        self.filename = filename
        self.pending = []  # stack of lists: hoisted FunctionDefs for the statement being lowered

    # ---- helpers
    def pos(self, new, n):
        loc = n.get('loc') or {'start': {'line': 1, 'column': 0}, 'end': {'line': 1, 'column': 0}}
        new.lineno = loc['start']['line']
        new.col_offset = loc['start']['column']
        new.end_lineno = loc['end']['line']
        new.end_col_offset = loc['end']['column']
        new.js = n.get('type')
        return new

    def fix(self, node, n):
        """Give every child lacking a position the position of n."""
        self.pos(node, n)
        for ch in ast.walk(node):
            if not hasattr(ch, 'lineno') and isinstance(ch, (ast.expr, ast.stmt, ast.arg, ast.excepthandler, ast.keyword)):
                ch.lineno, ch.col_offset = node.lineno, node.col_offset
                ch.end_lineno, ch.end_col_offset = node.end_lineno, node.end_col_offset
        return node

    def name(self, ident, ctx=None):
        return ast.Name(id=ident, ctx=ctx or ast.Load())

    # ---- module
    def module(self, prog):
        body = []
        for st in prog['body']:
            iife = self.iife_body(st)
            if iife is not None:
                body.extend(self.block(iife))
            else:
                body.extend(self.stmt(st))
        m = ast.Module(body=body, type_ignores=[])
        m.filename = self.filename
        return m

    def iife_body(self, st):
        if st.get('type') != 'ExpressionStatement':
            return None
        e = st['expression']
        if e.get('type') == 'CallExpression' and e['callee'].get('type') in ('FunctionExpression', 'ArrowFunctionExpression') and e['callee']['body'].get('type') == 'BlockStatement':
            return e['callee']['body']['body']
        return None

    # ---- statements
    def block(self, stmts):
        out = []
        for s in stmts:
            out.extend(self.stmt(s))
        return out

    def body_of(self, n):
        if n is None:
            return []
        if n['type'] == 'BlockStatement':
            return self.block(n['body'])
        return self.stmt(n)

    def nonempty(self, body, n):
        if body:
            return body
        return [self.fix(ast.Pass(), n)]

    def stmt(self, n):
        self.pending.append([])
        res = self._stmt(n)
        hoisted = self.pending.pop()
        return hoisted + res

    def _stmt(self, n):
        t = n['type']
        if t == 'EmptyStatement':
            return []
        if t == 'BlockStatement':
            return self.block(n['body'])
        if t == 'VariableDeclaration':
            out = []
            for d in n['declarations']:
                target = self.target(d['id'])
                value = self.expr(d['init']) if d.get('init') is not None else self.name('undefined')
                a = self.fix(ast.Assign(targets=[target], value=value), d)
                a.js_kind = n['kind']
                a.js_declared = True
                a.js_noinit = d.get('init') is None
                out.append(a)
            return out
        if t == 'FunctionDeclaration':
            fname = n['id']['name']
            return [self.funcdef(n, '__assert__' if fname == 'assert' else fname)]
        if t == 'ClassDeclaration':
            return [self.classdef(n)]
        if t == 'ExpressionStatement':
            return self.expr_stmt(n['expression'], n)
        if t == 'IfStatement':
            test = self.expr(n['test'])
            body = self.nonempty(self.body_of(n['consequent']), n)
            orelse = self.body_of(n.get('alternate'))
            return [self.fix(ast.If(test=test, body=body, orelse=orelse), n)]
        if t == 'WhileStatement':
            return [self.fix(ast.While(test=self.expr(n['test']), body=self.nonempty(self.body_of(n['body']), n), orelse=[]), n)]
        if t == 'DoWhileStatement':
            body = self.nonempty(self.body_of(n['body']), n)
            brk = self.fix(ast.If(test=ast.UnaryOp(op=ast.Not(), operand=self.expr(n['test'])), body=[ast.Break()], orelse=[]), n)
            w = self.fix(ast.While(test=ast.Constant(value=True), body=body + [brk], orelse=[]), n)
            w.js_do_while = True
            return [w]
        if t == 'ForOfStatement' or t == 'ForInStatement':
            left = n['left']
            if left['type'] == 'VariableDeclaration':
                target = self.target(left['declarations'][0]['id'])
            else:
                target = self.target(left)
            it = self.expr(n['right'])
            if t == 'ForInStatement':
                it = ast.Call(func=self.name('__keys__'), args=[it], keywords=[])
            f = self.fix(ast.For(target=target, iter=it, body=self.nonempty(self.body_of(n['body']), n), orelse=[]), n)
            return [f]
        if t == 'ForStatement':
            return self.for_stmt(n)
        if t == 'ReturnStatement':
            return [self.fix(ast.Return(value=self.expr(n['argument']) if n.get('argument') else None), n)]
        if t == 'BreakStatement':
            return [self.fix(ast.Break(), n)]
        if t == 'ContinueStatement':
            return [self.fix(ast.Continue(), n)]
        if t == 'ThrowStatement':
            return [self.fix(ast.Raise(exc=self.expr(n['argument']), cause=None), n)]
        if t == 'TryStatement':
            body = self.nonempty(self.block(n['block']['body']), n)
            handlers = []
            if n.get('handler'):
                h = n['handler']
                pname = h['param']['name'] if h.get('param') and h['param']['type'] == 'Identifier' else None
                handlers.append(self.fix(ast.ExceptHandler(type=None, name=pname, body=self.nonempty(self.block(h['body']['body']), h)), h))
            final = self.block(n['finalizer']['body']) if n.get('finalizer') else []
            return [self.fix(ast.Try(body=body, handlers=handlers, orelse=[], finalbody=final), n)]
        if t == 'SwitchStatement':
            # lowered to an if/elif chain on equality (fall-through is not modelled; flagged)
            disc = self.expr(n['discriminant'])
            chain = None
            default = []
            # `case 'a': case 'b': body` - labels without a body share the body of the next label; a body that does not end in
            # break/return/throw/continue falls through into the next one
            groups = []      # (tests or None for default, case node, body statements)
            pending = []
            for case in n['cases']:
                pending.append(case)
                if case['consequent']:
                    groups.append((pending, case))
                    pending = []
            if pending:
                groups.append((pending, pending[-1]))
            lowered = []
            nxt_body = []
            for labels, case in reversed(groups):
                raw = self.block(case['consequent'])
                ends = bool(raw) and isinstance(raw[-1], (ast.Break, ast.Return, ast.Raise, ast.Continue))
                cbody = [s for s in raw if not isinstance(s, ast.Break)]
                if not ends:
                    cbody = cbody + copy.deepcopy(nxt_body)
                nxt_body = cbody
                lowered.append((labels, case, cbody))
            for labels, case, cbody in lowered:
                if any(lb.get('test') is None for lb in labels):
                    default = cbody
                    if len(labels) == 1:
                        continue
                    labels = [lb for lb in labels if lb.get('test') is not None]
                tests = [ast.Compare(left=copy.deepcopy(disc), ops=[ast.Eq()], comparators=[self.expr(lb['test'])]) for lb in labels]
                test = tests[0] if len(tests) == 1 else ast.BoolOp(op=ast.Or(), values=tests)
                chain = [self.fix(ast.If(test=test, body=self.nonempty(cbody, case), orelse=chain if chain is not None else default), case)]
            res = chain if chain is not None else default
            for r in res:
                r.js_switch = True
            return res
        raise JSParseError('{}: unsupported statement type {} at line {}'.format(self.filename, t, n.get('loc', {}).get('start', {}).get('line')))

    def for_stmt(self, n):
        init, test, update = n.get('init'), n.get('test'), n.get('update')
        # canonical counting loop: for (let i = A; i < B; i++)
        if init and init['type'] == 'VariableDeclaration' and len(init['declarations']) == 1 and init['declarations'][0]['id']['type'] == 'Identifier' and init['declarations'][0].get('init') is not None and test and test['type'] == 'BinaryExpression' and test['operator'] == '<' and test['left']['type'] == 'Identifier' and update:
            var = init['declarations'][0]['id']['name']
            is_inc = (update['type'] == 'UpdateExpression' and update['operator'] == '++' and update['argument'].get('name') == var) or (update['type'] == 'AssignmentExpression' and update['operator'] == '+=' and update['left'].get('name') == var and update['right'].get('value') == 1)
            if test['left']['name'] == var and is_inc and not self.assigns_name(n['body'], var):
                start = self.expr(init['declarations'][0]['init'])
                stop = self.expr(test['right'])
                rng = ast.Call(func=self.name('range'), args=[start, stop], keywords=[])
                f = self.fix(ast.For(target=self.name(var, ast.Store()), iter=rng, body=self.nonempty(self.body_of(n['body']), n), orelse=[]), n)
                f.js_counting = True
                return [f]
        out = []
        if init:
            if init['type'] == 'VariableDeclaration':
                out.extend(self._stmt(init))
            else:
                out.extend(self.expr_stmt(init, n))
        upd = self.expr_stmt(update, n) if update else []
        body = self.body_of(n['body'])
        body = self.insert_before_continue(body, upd)
        testx = self.expr(test) if test else ast.Constant(value=True)
        w = self.fix(ast.While(test=testx, body=self.nonempty(body + upd, n), orelse=[]), n)
        w.js_for = True
        out.append(w)
        return out

    def assigns_name(self, n, var):
        found = []

        def walk(x):
            if isinstance(x, dict):
                if x.get('type') == 'AssignmentExpression' and x['left'].get('type') == 'Identifier' and x['left'].get('name') == var:
                    found.append(x)
                if x.get('type') == 'UpdateExpression' and x['argument'].get('name') == var:
                    found.append(x)
                for v in x.values():
                    walk(v)
            elif isinstance(x, list):
                for v in x:
                    walk(v)
        walk(n)
        return bool(found)

    def insert_before_continue(self, body, upd):
        if not upd:
            return body
        out = []
        for s in body:
            if isinstance(s, ast.Continue):
                import copy
                out.extend(copy.deepcopy(upd))
                out.append(s)
                continue
            if isinstance(s, (ast.If,)):
                s.body = self.insert_before_continue(s.body, upd)
                s.orelse = self.insert_before_continue(s.orelse, upd)
            elif isinstance(s, ast.Try):
                s.body = self.insert_before_continue(s.body, upd)
                for h in s.handlers:
                    h.body = self.insert_before_continue(h.body, upd)
                s.finalbody = self.insert_before_continue(s.finalbody, upd)
            out.append(s)
        return out

    def expr_stmt(self, e, n):
        t = e['type']
        if t == 'AssignmentExpression':
            target = self.target(e['left'])
            value = self.expr(e['right'])
            if e['operator'] == '=':
                return [self.fix(ast.Assign(targets=[target], value=value), n)]
            op = _BINOPS.get(e['operator'][:-1])
            if op is None:
                raise JSParseError('unsupported assignment operator ' + e['operator'])
            return [self.fix(ast.AugAssign(target=target, op=op(), value=value), n)]
        if t == 'UpdateExpression':
            op = ast.Add() if e['operator'] == '++' else ast.Sub()
            return [self.fix(ast.AugAssign(target=self.target(e['argument']), op=op, value=ast.Constant(value=1)), n)]
        if t == 'SequenceExpression':
            out = []
            for x in e['expressions']:
                out.extend(self.expr_stmt(x, n))
            return out
        if t == 'CallExpression' and e['callee'].get('type') == 'Identifier' and e['callee']['name'] == 'assert' and 1 <= len(e['arguments']) <= 2:
            msg = self.expr(e['arguments'][1]) if len(e['arguments']) == 2 else None
            return [self.fix(ast.Assert(test=self.expr(e['arguments'][0]), msg=msg), n)]
        return [self.fix(ast.Expr(value=self.expr(e)), n)]

    def funcdef(self, n, name, is_method=False):
        args = []
        defaults = []
        prologue = []
        vararg = None
        if is_method:
            args.append(ast.arg(arg='self'))
        for p in n['params']:
            if p['type'] == 'Identifier':
                args.append(self.pos(ast.arg(arg=p['name']), p))
                if defaults:
                    defaults.append(self.name('undefined'))
            elif p['type'] == 'AssignmentPattern' and p['left']['type'] == 'Identifier':
                args.append(self.pos(ast.arg(arg=p['left']['name']), p))
                defaults.append(self.expr(p['right']))
            elif p['type'] == 'RestElement':
                vararg = self.pos(ast.arg(arg=p['argument']['name']), p)
            elif p['type'] in ('ArrayPattern', 'ObjectPattern'):
                # destructuring parameter: bind to a synthetic name and destructure in the prologue
                synth = '__param{}'.format(len(args))
                args.append(self.pos(ast.arg(arg=synth), p))
                if defaults:
                    defaults.append(self.name('undefined'))
                prologue.append(self.fix(ast.Assign(targets=[self.target(p)], value=self.name(synth)), p))
            else:
                raise JSParseError('unsupported parameter pattern {}'.format(p['type']))
        a = ast.arguments(posonlyargs=[], args=args, vararg=vararg, kwonlyargs=[], kw_defaults=[], kwarg=None, defaults=defaults)
        if n['body']['type'] == 'BlockStatement':
            body = prologue + self.block(n['body']['body'])
        else:
            self.pending.append([])
            v = self.expr(n['body'])
            hoisted = self.pending.pop()
            body = prologue + hoisted + [self.fix(ast.Return(value=v), n['body'])]
        f = self.fix(ast.FunctionDef(name=name, args=a, body=self.nonempty(body, n), decorator_list=[], returns=None, type_comment=None, type_params=[]), n)
        f.is_async = bool(n.get('async'))
        return f

    def classdef(self, n):
        bases = [self.expr(n['superClass'])] if n.get('superClass') else []
        body = []
        for m in n['body']['body']:
            if m['type'] == 'MethodDefinition':
                key = m['key']['name'] if m['key']['type'] == 'Identifier' else str(m['key'].get('value'))
                mname = '__init__' if m.get('kind') == 'constructor' else key
                fd = self.funcdef(m['value'], mname, is_method=not m.get('static'))
                self.pos(fd, m)
                fd.js_method = key
                body.append(fd)
            elif m['type'] == 'PropertyDefinition':
                key = m['key']['name'] if m['key']['type'] == 'Identifier' else str(m['key'].get('value'))
                val = self.expr(m['value']) if m.get('value') else self.name('undefined')
                body.append(self.fix(ast.Assign(targets=[self.name(key, ast.Store())], value=val), m))
        c = self.fix(ast.ClassDef(name=n['id']['name'], bases=bases, keywords=[], body=self.nonempty(body, n), decorator_list=[], type_params=[]), n)
        return c

    # ---- targets
    def target(self, n):
        t = n['type']
        if t == 'Identifier':
            return self.pos(self.name(n['name'], ast.Store()), n)
        if t == 'MemberExpression':
            e = self.expr(n)
            e.ctx = ast.Store()
            return e
        if t == 'ArrayPattern':
            return self.pos(ast.Tuple(elts=[self.target(x) if x else self.name('_', ast.Store()) for x in n['elements']], ctx=ast.Store()), n)
        if t == 'AssignmentPattern':
            return self.target(n['left'])
        if t == 'ObjectPattern':
            # {a, b} = obj  ->  tuple of names; flagged
            tup = self.pos(ast.Tuple(elts=[self.target(p['value']) for p in n['properties']], ctx=ast.Store()), n)
            tup.js_object_pattern = [p['key'].get('name') for p in n['properties']]
            return tup
        raise JSParseError('unsupported assignment target {}'.format(t))

    # ---- expressions
    def is_nullish(self, n):
        return (n['type'] == 'Literal' and n.get('value') is None and n.get('raw') == 'null') or (n['type'] == 'Identifier' and n['name'] == 'undefined')

    def expr(self, n):
        e = self._expr(n)
        if not hasattr(e, 'lineno'):
            self.pos(e, n)
        for ch in ast.walk(e):
            if not hasattr(ch, 'lineno') and isinstance(ch, (ast.expr, ast.arg, ast.keyword)):
                ch.lineno, ch.col_offset = e.lineno, e.col_offset
                ch.end_lineno, ch.end_col_offset = e.end_lineno, e.end_col_offset
        return e

    def _expr(self, n):
        t = n['type']
        if t == 'Identifier':
            return self.name(n['name'])
        if t == 'ThisExpression':
            x = self.name('self')
            return x
        if t == 'Super':
            return self.name('super')
        if t == 'Literal':
            if 'regex' in n and n['regex']:
                c = ast.Call(func=self.name('__regex__'), args=[ast.Constant(value=n['regex']['pattern']), ast.Constant(value=n['regex']['flags'])], keywords=[])
                c.is_regex_literal = True
                return c
            v = n.get('value')
            if isinstance(v, float) and v == int(v) and '.' not in n.get('raw', '') and 'e' not in n.get('raw', '').lower():
                v = int(v)
            c = ast.Constant(value=v)
            c.js_raw = n.get('raw')
            return c
        if t == 'TemplateLiteral':
            if not n['expressions']:
                c = ast.Constant(value=n['quasis'][0]['value']['cooked'])
                c.is_template = True
                return c
            vals = []
            for i, q in enumerate(n['quasis']):
                cooked = q['value']['cooked']
                if cooked:
                    vals.append(ast.Constant(value=cooked))
                if i < len(n['expressions']):
                    vals.append(ast.FormattedValue(value=self.expr(n['expressions'][i]), conversion=-1, format_spec=None))
            j = ast.JoinedStr(values=vals)
            j.is_template = True
            return j
        if t == 'MemberExpression':
            obj = self.expr(n['object'])
            if n['computed']:
                return ast.Subscript(value=obj, slice=self.expr(n['property']), ctx=ast.Load())
            pname = n['property']['name']
            if pname == 'length':
                c = ast.Call(func=self.name('len'), args=[obj], keywords=[])
                c.js_length = True
                return c
            return ast.Attribute(value=obj, attr=pname, ctx=ast.Load())
        if t == 'CallExpression' or t == 'NewExpression':
            callee = self.expr(n['callee'])
            args = [self.expr(a) for a in n['arguments']]
            c = ast.Call(func=callee, args=args, keywords=[])
            c.is_new = (t == 'NewExpression')
            return c
        if t == 'SpreadElement':
            return ast.Starred(value=self.expr(n['argument']), ctx=ast.Load())
        if t == 'ChainExpression':
            # a?.b / a?.[i] / f?.(x): the same access, which yields undefined instead of throwing when the base is null/undefined
            x = self.expr(n['expression'])
            x.js_optional_chain = True
            return x
        if t == 'BinaryExpression':
            op = n['operator']
            if op == 'instanceof':
                return ast.Call(func=self.name('isinstance'), args=[self.expr(n['left']), self.expr(n['right'])], keywords=[])
            left, right = self.expr(n['left']), self.expr(n['right'])
            if op in _CMPOPS:
                cop = _CMPOPS[op]
                if op in ('==', '===', '!=', '!==') and (self.is_nullish(n['left']) or self.is_nullish(n['right'])):
                    cop = ast.Is if op in ('==', '===') else ast.IsNot
                    if self.is_nullish(n['left']) and not self.is_nullish(n['right']):
                        left, right = right, left
                cmp_ = ast.Compare(left=left, ops=[cop()], comparators=[right])
                cmp_.js_op = op
                return cmp_
            if op in _BINOPS:
                b = ast.BinOp(left=left, op=_BINOPS[op](), right=right)
                return b
            raise JSParseError('unsupported binary operator ' + op)
        if t == 'LogicalExpression':
            op = {'&&': ast.And, '||': ast.Or, '??': ast.Or}[n['operator']]
            left, right = self.expr(n['left']), self.expr(n['right'])
            vals = []
            for s in (left, right):
                if isinstance(s, ast.BoolOp) and isinstance(s.op, op) and s is left:
                    vals.extend(s.values)
                else:
                    vals.append(s)
            return ast.BoolOp(op=op(), values=vals)
        if t == 'UnaryExpression':
            op = n['operator']
            arg = self.expr(n['argument'])
            if op == '!':
                return ast.UnaryOp(op=ast.Not(), operand=arg)
            if op == '-':
                if isinstance(arg, ast.Constant) and isinstance(arg.value, (int, float)):
                    return ast.Constant(value=-arg.value)
                return ast.UnaryOp(op=ast.USub(), operand=arg)
            if op == '+':
                return ast.UnaryOp(op=ast.UAdd(), operand=arg)
            if op == '~':
                return ast.UnaryOp(op=ast.Invert(), operand=arg)
            if op in ('typeof', 'void', 'delete'):
                return ast.Call(func=self.name(op), args=[arg], keywords=[])
            raise JSParseError('unsupported unary operator ' + op)
        if t == 'ConditionalExpression':
            return ast.IfExp(test=self.expr(n['test']), body=self.expr(n['consequent']), orelse=self.expr(n['alternate']))
        if t == 'ArrayExpression':
            return ast.List(elts=[self.expr(x) if x else ast.Constant(value=None) for x in n['elements']], ctx=ast.Load())
        if t == 'ObjectExpression':
            keys, vals = [], []
            for p in n['properties']:
                if p['type'] == 'SpreadElement':
                    keys.append(None)
                    vals.append(self.expr(p['argument']))
                    continue
                k = p['key']
                if p.get('computed'):
                    keys.append(self.expr(k))
                elif k['type'] == 'Identifier':
                    keys.append(ast.Constant(value=k['name']))
                else:
                    keys.append(ast.Constant(value=k.get('value')))
                vals.append(self.expr(p['value']))
            return ast.Dict(keys=keys, values=vals)
        if t == 'AwaitExpression':
            e = self.expr(n['argument'])
            e.awaited = True
            return e
        if t == 'AssignmentExpression':
            if n['operator'] == '=' and n['left']['type'] == 'Identifier':
                return ast.NamedExpr(target=self.name(n['left']['name'], ast.Store()), value=self.expr(n['right']))
            raise JSParseError('unsupported assignment inside expression at line {}'.format(n['loc']['start']['line']))
        if t in ('ArrowFunctionExpression', 'FunctionExpression'):
            if n['body']['type'] != 'BlockStatement' and all(p['type'] == 'Identifier' for p in n['params']):
                a = ast.arguments(posonlyargs=[], args=[ast.arg(arg=p['name']) for p in n['params']], vararg=None, kwonlyargs=[], kw_defaults=[], kwarg=None, defaults=[])
                lam = ast.Lambda(args=a, body=self.expr(n['body']))
                lam.is_async = bool(n.get('async'))
                return lam
            loc = n['loc']['start']
            fname = '__fn_{}_{}'.format(loc['line'], loc['column'])
            fd = self.funcdef(n, fname)
            fd.js_anonymous = True
            self.pending[-1].append(fd)
            ref = self.name(fname)
            ref.js_function_ref = fd
            return ref
        if t == 'YieldExpression':
            v = self.expr(n['argument']) if n.get('argument') is not None else None
            return ast.YieldFrom(value=v) if n.get('delegate') else ast.Yield(value=v)
        if t == 'SequenceExpression':
            raise JSParseError('sequence expression inside expression not supported')
        if t == 'UpdateExpression':
            raise JSParseError('update expression inside expression not supported at line {}'.format(n['loc']['start']['line']))
        raise JSParseError('{}: unsupported expression type {}'.format(self.filename, t))


def lower_estree(estree, filename):
    low = Lowerer(filename)
    low.pending.append([])
    mod = low.module(estree)
    ast.fix_missing_locations(mod)
    return mod


def parse_js_files(paths):
    """paths: {name: path}.  Returns ({name: ast.Module}, parser_name)."""
    items = [{'name': k, 'path': v} for k, v in paths.items()]
    trees = run_node_parser(items)
    return {k: lower_estree(trees[k], paths[k]) for k in paths}, trees['__parser__']


def parse_js_texts(texts):
    """texts: {name: source text}.  Returns {name: ast.Module}."""
    items = [{'name': k, 'text': v} for k, v in texts.items()]
    trees = run_node_parser(items)
    return {k: lower_estree(trees[k], '<' + k + '>') for k in texts}


if __name__ == '__main__':
    import sys
    mods, parser = parse_js_files({os.path.basename(p): p for p in sys.argv[1:]})
    print('# parser:', parser)
    for k, m in mods.items():
        print('#', k)
        print(ast.unparse(m))
