#!/bin/sh
# Nothing is built or installed: verifies that the interpreter and a JavaScript parser are reachable.
cd "$(dirname "$0")" || exit 2
/venv/bin/python -c "import ast, symtable, re, json" || { echo "python interpreter /venv/bin/python not usable"; exit 1; }
echo '[{"name":"probe","text":"let x = 1;"}]' | node --expose-internals sa/jsast.js | /venv/bin/python -c "import sys,json; d=json.load(sys.stdin); assert d['__parser__'] and 'ast' in d['probe'], d; print('js parser:', d['__parser__'])" || { echo "no JavaScript parser (node with bundled acorn / esprima) available"; exit 1; }
mkdir -p evidence/replay
echo "setup ok"
