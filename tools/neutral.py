"""Behaviour-preserving edits of RBQL ("neutral refactorings"): every check must stay silent (exit 0) on each of them.
Developer tool, see tools/selftest.py.  Each entry: (name, relative file, old text, new text[, count])."""
import ast
import concurrent.futures
import os
import shutil
import sys

from tools import selftest

E = 'rbql-py/rbql/rbql_engine.py'
C = 'rbql-py/rbql/rbql_csv.py'
U = 'rbql-py/rbql/csv_utils.py'
J = 'rbql-js/rbql.js'
JC = 'rbql-js/rbql_csv.js'
JU = 'rbql-js/csv_utils.js'

EDITS = [
    ('py-nr-assign-form', E, "        NR += 1\n        NF = len(record_a)", "        NR = NR + 1\n        NF = len(record_a)"),
    ('py-copy-idiom-list', E, "up_fields = record_a[:]", "up_fields = list(record_a)", 2),
    ('py-template-init-order', E, "    NR = 0\n    NU = 0\n    stop_flag = False", "    stop_flag = False\n    NU = 0\n    NR = 0"),
    ('py-topwriter-rename-local', E, "        success = self.subwriter.write(record)\n        if success:\n            self.NW += 1\n        return success", "        accepted = self.subwriter.write(record)\n        if accepted:\n            self.NW = self.NW + 1\n        return accepted"),
    ('py-uniq-direct-return', E, "        if not self.subwriter.write(record):\n            return False\n        return True\n\n    def finish(self):\n        self.subwriter.finish()\n\n\nclass UniqCountWriter", "        return self.subwriter.write(record)\n\n    def finish(self):\n        self.subwriter.finish()\n\n\nclass UniqCountWriter"),
    ('py-safe-get-inverted', E, "    return record[idx] if idx < len(record) else None", "    return None if idx >= len(record) else record[idx]"),
    ('py-like-rename-locals', E, None, None),
    ('py-field-regex-respelled', U, """field_regular_expression = '"((?:[^"]*"")*[^"]*)"'""", """field_regular_expression = '"((?:""|[^"])*)"'"""),
    ('py-newline-regex-respelled', U, "newline_rgx = re.compile('(?:\\r\\n)|\\r|\\n')", "newline_rgx = re.compile('\\r\\n|\\r|\\n')"),
    ('py-extract-rename-warning', U, None, None),
    ('py-sorted-writer-key-def', E, "        sorted_entries = sorted(self.unsorted_entries, key=lambda x: x[0])", "        sorted_entries = sorted(self.unsorted_entries, key=lambda entry: entry[0])"),
    ('py-context-init-reorder', E, "        self.unnest_list = None\n        self.top_count = None\n", "        self.top_count = None\n        self.unnest_list = None\n"),
    ('py-eof-test-spelling', E, "        if record_a is None:\n            break\n        NR += 1", "        if record_a == None:\n            break\n        NR += 1"),
    ('py-reader-rename-chunks', C, None, None),
    ('py-get-record-while-form', C, "            if self.comment_prefix is None or not line.startswith(self.comment_prefix):\n                break", "            if self.comment_prefix is None:\n                break\n            if not line.startswith(self.comment_prefix):\n                break"),
    ('py-hashjoin-local-rename', E, None, None),
    ('py-unparse-roundtrip-csv-utils', U, None, None),
    ('py-unparse-roundtrip-csv', C, None, None),
    ('js-copy-idiom-spread', J, "let up_fields = record_a.slice();", "let up_fields = [...record_a];", 2),
    ('js-nr-assign-form', J, "    NR += 1;\n    let NF = record_a.length;", "    NR = NR + 1;\n    let NF = record_a.length;"),
    ('js-topwriter-counter-form', J, "        await this.subwriter.write(record);\n        this.NW += 1;", "        await this.subwriter.write(record);\n        this.NW = this.NW + 1;"),
    ('js-safe-get-if-form', J, "    return idx < record.length ? record[idx] : null;", "    if (idx < record.length)\n        return record[idx];\n    return null;"),
    ('js-like-rename-locals', J, None, None),
    ('js-split-lines-respelled', JU, "    return text.split(/\\r\\n|\\r|\\n/);", "    return text.split(/(?:\\r\\n)|\\r|\\n/);"),
    ('js-chunk-rename-locals', JC, None, None),
    # round 2: benign twins of seeded defects
    ('py-pure-regex-memo', U, "def extract_next_field(src, dlm, preserve_quotes_and_whitespaces, allow_external_whitespaces, cidx, result):\n    warning = False\n    rgx = field_rgx_external_whitespaces if allow_external_whitespaces else field_rgx\n", "_rgx_memo = dict()\n\n\ndef _get_field_rgx(allow_external_whitespaces):\n    rgx = _rgx_memo.get(allow_external_whitespaces)\n    if rgx is None:\n        spaces = ' *' if allow_external_whitespaces else ''\n        rgx = re.compile(spaces + field_regular_expression + spaces)\n        _rgx_memo[allow_external_whitespaces] = rgx\n    return rgx\n\n\ndef extract_next_field(src, dlm, preserve_quotes_and_whitespaces, allow_external_whitespaces, cidx, result):\n    warning = False\n    rgx = _get_field_rgx(allow_external_whitespaces)\n"),
    ('py-sortedwriter-drop-buffer-after-sort', E, "        for e in sorted_entries:\n            if not self.subwriter.write(e[1]):\n                break\n        self.subwriter.finish()", "        self.unsorted_entries = None\n        for e in sorted_entries:\n            if not self.subwriter.write(e[1]):\n                break\n        self.subwriter.finish()"),
    ('py-csvwriter-stmt-before-width-check', C, "    def write(self, fields):\n        if self.header_len is not None and len(fields) != self.header_len:", "    def write(self, fields):\n        num_fields = len(fields)\n        if self.header_len is not None and num_fields != self.header_len:"),
    ('py-main-delim-presence-var', 'rbql-py/rbql/rbql_main.py', "        if args.delim is None:\n            show_error('generic', 'Separator must be provided", "        delim_missing = args.delim is None\n        if delim_missing:\n            show_error('generic', 'Separator must be provided"),
    ('py-combine-helper-var', E, "            select_expression = combine_string_literals(select_expression, string_literals)\n", "            select_expression_with_literals = combine_string_literals(select_expression, string_literals)\n            select_expression = select_expression_with_literals\n"),
    ('js-replace-all-loop', J, "    return src.split(search).join(replacement);", "    let parts = src.split(search);\n    return parts.join(replacement);"),
    ('js-like-matcher-const', J, "    let matcher = query_context.like_regex_cache.get(pattern);\n    if (matcher === undefined) {\n        matcher = new RegExp(like_to_regex(pattern));\n        query_context.like_regex_cache.set(pattern, matcher);\n    }\n    return matcher.test(text);", "    let matcher = query_context.like_regex_cache.get(pattern);\n    if (matcher === undefined) {\n        let compiled = new RegExp(like_to_regex(pattern));\n        query_context.like_regex_cache.set(pattern, compiled);\n        matcher = compiled;\n    }\n    return matcher.test(text);"),
    ('js-normalize-fields-local', JC, "                this.normalize_fields(out_fields[i]);\n                out_fields[i] = out_fields[i].join(this.sub_array_delim);", "                this.normalize_fields(out_fields[i]);\n                let joined = out_fields[i].join(this.sub_array_delim);\n                out_fields[i] = joined;"),
    ('js-select-unnested-loop-var', J, "    for (var i = 0; i < query_context.unnest_list.length; i++) {\n        out_fields[unnest_pos] = query_context.unnest_list[i];", "    for (var k = 0; k < query_context.unnest_list.length; k++) {\n        out_fields[unnest_pos] = query_context.unnest_list[k];"),
]


def special(name, text):
    """edits that are easier to express as a function of the file text"""
    if name == 'py-like-rename-locals':
        a = text.index('def like_to_regex(pattern):')
        b = text.index('class RBQLAggregationToken')
        body = text[a:b]
        import re
        body = re.sub(r'\bconverted\b', 'acc', body)
        body = re.sub(r'\bp\b', 'run_start', body)
        body = re.sub(r'\bi\b', 'pos', body)
        return text[:a] + body + text[b:]
    if name == 'js-like-rename-locals':
        a = text.index('function like_to_regex(pattern) {')
        b = text.index('function like(text, pattern)')
        body = text[a:b]
        import re
        body = re.sub(r'\bconverted\b', 'acc', body)
        body = re.sub(r'\bp\b', 'run_start', body)
        body = re.sub(r'\bi\b', 'pos', body)
        return text[:a] + body + text[b:]
    if name == 'py-extract-rename-warning':
        a = text.index('def extract_next_field(')
        b = text.index('def split_quoted_str(')
        import re
        body = re.sub(r'\bwarning\b', 'defect', text[a:b])
        body = re.sub(r'\buidx\b', 'end_pos', body)
        return text[:a] + body + text[b:]
    if name == 'py-reader-rename-chunks':
        a = text.index('    def _read_until_found(self):')
        b = text.index('    def get_row_simple(self):')
        import re
        body = re.sub(r'\bchunks\b', 'parts', text[a:b])
        body = re.sub(r'\bchunk\b', 'piece', body)
        return text[:a] + body + text[b:]
    if name == 'py-hashjoin-local-rename':
        a = text.index('    def build(self):\n        nr = 0')
        b = text.index('    def get_join_records(self, key):')
        import re
        body = re.sub(r'\bfields\b', 'rec', text[a:b])
        return text[:a] + body + text[b:]
    if name.startswith('py-unparse-roundtrip'):
        return ast.unparse(ast.parse(text)) + '\n'
    if name == 'js-chunk-rename-locals':
        a = text.index('    process_data_stream_chunk(data_chunk) {')
        b = text.index('    process_data_bulk(data_blob) {')
        import re
        body = re.sub(r'\blines\b', 'rows', text[a:b])
        body = re.sub(r'\bfirst_line_index\b', 'start_at', body)
        body = re.sub(r'\bline_starts_with_lf\b', 'lf_first', body)
        return text[:a] + body + text[b:]
    raise KeyError(name)


def apply_edit(tree, edit):
    name, rel, old, new = edit[:4]
    path = os.path.join(tree, rel)
    with open(path) as f:
        text = f.read()
    if old is None:
        out = special(name, text)
    else:
        want = edit[4] if len(edit) > 4 else 1
        if text.count(old) != want:
            return 'anchor text occurs {} times'.format(text.count(old))
        out = text.replace(old, new)
    if out == text:
        return 'edit changed nothing'
    with open(path, 'w') as f:
        f.write(out)
    return None


def one(edit):
    tree = selftest.make_copy()
    try:
        err = apply_edit(tree, edit)
        if err:
            return edit[0], {'error': err}
        # sanity: still compiles
        if edit[1].endswith('.py'):
            import subprocess
            r = subprocess.run(['/venv/bin/python', '-W', 'ignore', '-m', 'py_compile', os.path.join(tree, edit[1])], stdout=subprocess.PIPE, stderr=subprocess.STDOUT)
            if r.returncode != 0:
                return edit[0], {'error': 'does not compile: ' + r.stdout.decode()[:200]}
        else:
            import subprocess
            r = subprocess.run(['node', '--check', os.path.join(tree, edit[1])], stdout=subprocess.PIPE, stderr=subprocess.STDOUT)
            if r.returncode != 0:
                return edit[0], {'error': 'does not compile: ' + r.stdout.decode()[:200]}
        return edit[0], selftest.run_checks(tree)
    finally:
        shutil.rmtree(tree, ignore_errors=True)


def main(argv):
    edits = [e for e in EDITS if not argv or e[0] in argv]
    bad = 0
    with concurrent.futures.ThreadPoolExecutor(max_workers=8) as ex:
        for name, res in ex.map(one, edits):
            if 'error' in res:
                print('{}: SKIPPED ({})'.format(name, res['error']))
                continue
            noisy = {p: (v['rc'], v['rules'] or v['undecided'], v['first'][:160]) for p, v in res.items() if v['rc'] != 0}
            if noisy:
                bad += 1
                print('{}: FALSE ALARM {}'.format(name, noisy))
            else:
                print('{}: silent'.format(name))
            sys.stdout.flush()
    print('neutral edits raising an alarm:', bad)
    return 1 if bad else 0


if __name__ == '__main__':
    sys.exit(main(sys.argv[1:]))
