"""Regenerates /verif/MANIFEST.json from the property registry (developer tool; run with /venv/bin/python -m tools.gen_manifest)."""
import json
import os
import sys

sys.path.insert(0, os.path.dirname(os.path.dirname(os.path.abspath(__file__))))
from sa import props  # noqa: E402

TECH = {
    'C01': 'partial evaluation of the code generator + CFG dominance rules on composed skeletons',
    'C02': 'exhaustive parser configuration table + bounded abstract interpretation (sa/absexec.py, DESIGN 3.6) of the TOP / DISTINCT / DISTINCT COUNT / ORDER BY writer classes on record scenarios with an abstract next writer; writer-chain CFG rules as fall-back',
    'C03': 'routing/staging shape rules over aggregator classes and skeleton aliases',
    'C04': 'bounded abstract interpretation (sa/absexec.py, DESIGN 3.6) of the join map, the joiners and the ON-clause resolution + skeleton CFG rules (incl. must-pass-through of the main-loop evaluation) + regex membership by DFA',
    'C05': 'CFG dominance / path counting on composed UPDATE skeletons',
    'C06': 'interprocedural value-origin (ownership) analysis + who-may-open/execute rules + regex inclusion by automata',
    'C07': 'configuration-table arity accounting + bounded abstract interpretation (sa/absexec.py, DESIGN 3.6) of the header-naming functions (select_output_header, column_info_from_node, JS header inference, star rewrites, EXCEPT) on abstract select lists',
    'C08': 'regex parse-tree case analysis + taint analysis of raw query text + bounded abstract interpretation (sa/absexec.py, DESIGN 3.6) of literal extraction / re-insertion and clause location on query texts',
    'C09': 'shape rules on variable parsers, escape function and header flags',
    'C10': 'quote-trigger set comparison + delimiter-width lint + bounded abstract interpretation (sa/absexec.py, DESIGN 3.6) of smart_split per policy and of the Python CSV writer per policy over an abstract stream',
    'C11': 'regex language equivalence by DFA product + splitter path rules + bounded abstract interpretation (sa/absexec.py, DESIGN 3.6) of the splitter dispatch',
    'C12': 'bounded abstract interpretation (sa/absexec.py, DESIGN 3.6) of the Python reader stack (get_row_simple / get_row_rfc / get_record) on every text up to 4-5 characters over a 3-4 letter alphabet and every chunk size up to 3, plus lines longer than every constant in the reader; statement-level must-flow rules as fall-back',
    'C13': 'import-graph, interface conformance and CLI channel rules; the default-policy and error-taxonomy functions are evaluated by bounded abstract interpretation',
    'C14': 'handler CFG analysis on skeletons + warning-flag rules decided by bounded abstract interpretation (sa/absexec.py, DESIGN 3.6) of get_warnings, normalize_fields and the field-count message builder; call-graph rule for decode errors',
    'C15': 'open/close typestate + exception-edge CFG + protocol phase rules',
    'C16': 'module-state inventory, alias-aware mutation lint, symtable scope check of generated code',
    'C17': 'bounded abstract interpretation (sa/absexec.py, DESIGN 3.6) of like_to_regex on every abstract pattern of up to 4 characters (JS: also characters outside the basic plane), results compared as regular languages; escape-taint rules as fall-back',
    'C18': 'cross-port comparison of extracted facts and regex languages',
    'C19': 'all reference-semantics rules applied to rbql.js through the common IR',
    'C20': 'decoder-option rules + bounded abstract interpretation (sa/absexec.py, DESIGN 3.6) of the JS chunk handler on abstract streams, the record queue and the end-of-stream handler (CFG must-pass-through of the multi-line flush)',
}

checks = []
for pid in sorted(props.PROPS):
    spec = props.PROPS[pid]
    checks.append({
        'property_id': pid,
        'quick_cmd': './check {} --tier quick'.format(pid),
        'thorough_cmd': './check {} --tier thorough'.format(pid),
        'evidence_file': 'evidence/{}.json'.format(pid),
        'replay_cmd_template': './check {} --tier quick   # re-evaluates every obligation; the replay file {{path}} names the failing one'.format(pid),
        'engine': 'sa',
        'level_claimed': {
            'category': 'other',
            'text': 'Static decision of named structural clauses (each a necessary condition of the property, for every input at once): ' + spec['explanation'],
            'design_ref': 'DESIGN.md sections 4 and 5 ({})'.format(pid),
        },
        'level_note': 'NOT decided by this check: ' + spec['not_decided'] + ' Trusted base: python ast/symtable/re._parser and acorn as parsers; stated language semantics; idiom tables in /verif/sa. A shape outside the idiom tables is reported as ANALYSIS-ERROR (exit 2), never as a pass.',
        'technique': 'static analysis: ' + TECH[pid],
    })

manifest = {
    'version': 1,
    'setup_cmd': './setup.sh',
    'hooks': {
        'guard': 'RBQL_VERIF',
        'enable': 'not used: the checks parse /repo, nothing of /repo is built or executed, so no hook was added to the repository',
        'baseline_off_cmd': 'cd /repo && /venv/bin/python -m pytest -ra -q -p no:cacheprovider --timeout=900 --continue-on-collection-errors',
        'source_commits': [],
        'add_only': True,
    },
    'engines': [
        {'name': 'sa', 'path': 'sa/', 'serves_properties': sorted(props.PROPS), 'kind_free_text': 'repository-specific static analyser: Python ast + JavaScript ESTree (acorn) lowered to one IR; CFG/dominators; partial evaluator of the code generator; parser configuration table; value-origin analysis; regex automata'},
    ],
    'checks': checks,
    'not_applicable': [],
    'notes': 'Every property is claimed partially: level_claimed.text lists the clauses decided, level_note the clauses not decided (runtime values, all-strings quantifiers). known_findings.json lists genuine defects found (13 repaired by fix: commits, 2 recorded as known). Developer self-test: tools/selftest.py (mutates scratch copies; not a check).',
}
with open(os.path.join(os.path.dirname(os.path.dirname(os.path.abspath(__file__))), 'MANIFEST.json'), 'w') as f:
    json.dump(manifest, f, indent=1)
print('MANIFEST.json written with', len(checks), 'checks')
