"""Developer self-test (NOT a MANIFEST command: it works on scratch copies of /repo, never on /repo itself).

  /venv/bin/python -m tools.selftest seeded            apply every /verif/seeded/<id>/patch.diff to a scratch copy and run all checks
  /venv/bin/python -m tools.selftest patch <file>...   the same for arbitrary patch files
  /venv/bin/python -m tools.selftest neutral           behaviour-preserving edits: every check must stay silent

Scratch copies live under /tmp/rbql_selftest_* and are removed afterwards.
"""
import concurrent.futures
import glob
import json
import os
import shutil
import subprocess
import sys
import tempfile

VERIF = os.path.dirname(os.path.dirname(os.path.abspath(__file__)))
REPO = '/repo'
PROPS = ['C%02d' % i for i in range(1, 21)]


def make_copy():
    d = tempfile.mkdtemp(prefix='rbql_selftest_')
    subprocess.check_call(['rsync', '-a', '--exclude', '.git', '--exclude', '__pycache__', '--exclude', '.benchmarks', REPO + '/', d + '/'])
    return d


def run_checks(tree, props=PROPS, tier='quick'):
    out = {}
    outdir = tempfile.mkdtemp(prefix='rbql_selftest_out_')
    env = dict(os.environ, RBQL_VERIF_REPO=tree, RBQL_VERIF_OUT=outdir)
    for p in props:
        try:
            r = subprocess.run([os.path.join(VERIF, 'check'), p, '--tier', tier], env=env, stdout=subprocess.PIPE, stderr=subprocess.STDOUT, timeout=300)
            text = r.stdout.decode('utf-8', 'replace')
            rules = sorted({ln.split('rule=')[1].split(' ')[0] for ln in text.splitlines() if ln.startswith('  rule=')})
            errs = sorted({ln.split('rule=')[1].split(' ')[0] for ln in text.splitlines() if ln.startswith('ANALYSIS-ERROR') and 'rule=' in ln})
            first = [ln for ln in text.splitlines() if ln.startswith('  rule=')][:1]
            out[p] = {'rc': r.returncode, 'rules': rules, 'undecided': errs, 'first': first[0][:300] if first else ''}
        except subprocess.TimeoutExpired:
            out[p] = {'rc': -1, 'rules': [], 'undecided': ['timeout'], 'first': ''}
    shutil.rmtree(outdir, ignore_errors=True)
    return out


def try_patch(patch, tier='quick', props=PROPS):
    tree = make_copy()
    try:
        r = subprocess.run(['git', 'apply', '--unsafe-paths', '--directory', tree, os.path.abspath(patch)], cwd='/', stdout=subprocess.PIPE, stderr=subprocess.STDOUT)
        if r.returncode != 0:
            r = subprocess.run(['patch', '-p1', '-d', tree, '-i', os.path.abspath(patch)], stdout=subprocess.PIPE, stderr=subprocess.STDOUT)
            if r.returncode != 0:
                return {'error': 'patch does not apply: ' + r.stdout.decode()[:300]}
        return run_checks(tree, props, tier)
    finally:
        shutil.rmtree(tree, ignore_errors=True)


def summarize(name, res):
    if 'error' in res:
        return '{}: {}'.format(name, res['error'])
    fired = {p: v['rules'] for p, v in res.items() if v['rc'] == 1}
    und = {p: v['undecided'] for p, v in res.items() if v['rc'] == 2}
    return '{}: VIOLATION in {}  | UNDECIDED in {}'.format(name, fired or '-', und or '-')


def main(argv):
    mode = argv[0] if argv else 'seeded'
    if mode == 'seeded':
        patches = sorted(glob.glob(os.path.join(VERIF, 'seeded', '*', 'patch.diff')))
    elif mode == 'patch':
        patches = argv[1:]
    elif mode == 'neutral':
        from tools import neutral
        return neutral.main(argv[1:])
    else:
        print(__doc__)
        return 2
    results = {}
    with concurrent.futures.ThreadPoolExecutor(max_workers=int(os.environ.get('RBQL_SELFTEST_JOBS', '12'))) as ex:
        futs = {ex.submit(try_patch, p): p for p in patches}
        for f in concurrent.futures.as_completed(futs):
            p = futs[f]
            parts = os.path.abspath(p).split(os.sep)
            name = '/'.join(parts[-3:]) if len(parts) >= 3 and parts[-3].startswith('round') else '/'.join(parts[-2:])
            results[name] = f.result()
            print(summarize(name, results[name]))
            sys.stdout.flush()
    with open('/tmp/rbql_selftest_last.json', 'w') as f:
        json.dump(results, f, indent=1)
    return 0


if __name__ == '__main__':
    sys.exit(main(sys.argv[1:]))
