"""Regenerates sa/alpha_ref.json (the reference spelling of local variables, see sa/alpha.py) from the current /repo tree.
Run only when the rule tables are updated to a new spelling of the repository's locals."""
import json
import os
import sys
import warnings

warnings.simplefilter('ignore')
sys.path.insert(0, os.path.dirname(os.path.dirname(os.path.abspath(__file__))))
from sa import alpha, model  # noqa: E402

os.environ['RBQL_VERIF_NO_ALPHA'] = '1'
out = {'py': alpha.compute(model.load_py()), 'js': alpha.compute(model.load_js())}
with open(alpha.REF, 'w') as f:
    json.dump(out, f, indent=0, sort_keys=True)
print('alpha reference written:', {k: len(v) for k, v in out.items()})
