"""Automatic behaviour-preserving edits: for every function of the Python library modules, rename all of its local variables
(tokenize-based, strings and attribute names untouched).  Every check must stay silent.  Developer tool.
  /venv/bin/python -m tools.autorename [module ...]
"""
import ast
import concurrent.futures
import io
import os
import shutil
import subprocess
import sys
import tokenize

from tools import selftest

MODULES = ['rbql_engine', 'rbql_csv', 'csv_utils', 'rbql_pandas', 'rbql_sqlite']
SKIP_FUNCS = {'compile_and_run'}   # its locals are looked up by the generated code through locals()


def locals_of(fd):
    params = {a.arg for a in fd.args.args + fd.args.kwonlyargs} | ({fd.args.vararg.arg} if fd.args.vararg else set()) | ({fd.args.kwarg.arg} if fd.args.kwarg else set())
    bound = set()
    globs = set()
    for n in ast.walk(fd):
        if isinstance(n, ast.Global):
            globs |= set(n.names)
        if isinstance(n, ast.Name) and isinstance(n.ctx, ast.Store):
            bound.add(n.id)
        if isinstance(n, ast.ExceptHandler) and n.name:
            bound.add(n.name)
        if isinstance(n, (ast.FunctionDef, ast.ClassDef)) and n is not fd:
            bound.discard(n.name)
    # nested function parameters are their own scope; keep it simple: do not rename names that are parameters of nested functions
    for n in ast.walk(fd):
        if isinstance(n, (ast.FunctionDef, ast.Lambda)) and n is not fd:
            for a in n.args.args:
                bound.discard(a.arg)
    return bound - params - globs - {'self'}


def rename_in_span(src, fd, names):
    lines = src.splitlines(keepends=True)
    start, end = fd.lineno - 1, fd.end_lineno
    seg = ''.join(lines[start:end])
    out = []
    toks = list(tokenize.generate_tokens(io.StringIO(seg).readline))
    depth = 0
    for i, t in enumerate(toks):
        s = t.string
        if t.type == tokenize.OP and s in '([{':
            depth += 1
        if t.type == tokenize.OP and s in ')]}':
            depth -= 1
        if t.type == tokenize.NAME and s in names:
            prev = toks[i - 1] if i else None
            nxt = toks[i + 1] if i + 1 < len(toks) else None
            is_attr = prev is not None and prev.type == tokenize.OP and prev.string == '.'
            is_kw = depth > 0 and nxt is not None and nxt.type == tokenize.OP and nxt.string == '=' and prev is not None and prev.type == tokenize.OP and prev.string in '(,'
            if not is_attr and not is_kw:
                s = s + '_rn'
        out.append((t.type, s, t.start, t.end, t.line))
    # rebuild preserving layout: untokenize in full mode needs positions; shift positions is complex -> use line-wise replace
    res_lines = seg.splitlines(keepends=True)
    # apply replacements right-to-left per line
    per_line = {}
    for (tt, s, st, en, ln), t in zip(out, toks):
        if s != t.string:
            per_line.setdefault(st[0], []).append((st[1], en[1], s))
    for lno, reps in per_line.items():
        line = res_lines[lno - 1]
        for c0, c1, s in sorted(reps, reverse=True):
            line = line[:c0] + s + line[c1:]
        res_lines[lno - 1] = line
    return ''.join(lines[:start]) + ''.join(res_lines) + ''.join(lines[end:])


def variants():
    for m in MODULES:
        path = os.path.join('/repo/rbql-py/rbql', m + '.py')
        src = open(path).read()
        tree = ast.parse(src)
        for fd in ast.walk(tree):
            if isinstance(fd, ast.FunctionDef) and fd.name not in SKIP_FUNCS:
                # only top-level functions and methods (nested ones are renamed with their parent)
                names = locals_of(fd)
                if not names:
                    continue
                yield ('{}.{}@{}'.format(m, fd.name, fd.lineno), 'rbql-py/rbql/{}.py'.format(m), fd, names, src)


def is_nested(tree, fd):
    for n in ast.walk(tree):
        if isinstance(n, ast.FunctionDef) and n is not fd:
            if any(x is fd for x in ast.walk(n)):
                return True
    return False


def one(v):
    name, rel, fd, names, src = v
    new = rename_in_span(src, fd, names)
    try:
        ast.parse(new)
    except SyntaxError as e:
        return name, {'error': 'variant does not parse: {}'.format(e)}
    tree = selftest.make_copy()
    try:
        with open(os.path.join(tree, rel), 'w') as f:
            f.write(new)
        env = dict(os.environ, PYTHONPATH=os.path.join(tree, 'rbql-py'))
        r = subprocess.run(['/venv/bin/python', '-W', 'ignore', '-m', 'pytest', '-q', '-x', '-p', 'no:cacheprovider', 'test/test_rbql.py', 'test/test_csv_utils.py', 'test/test_rbql_sqlite.py'], cwd=tree, env=env, stdout=subprocess.PIPE, stderr=subprocess.STDOUT)
        if r.returncode != 0:
            return name, {'error': 'rename is not neutral (project tests fail)'}
        return name, selftest.run_checks(tree)
    finally:
        shutil.rmtree(tree, ignore_errors=True)


def main(argv):
    vs = []
    for v in variants():
        if argv and v[0].split('.')[0] not in argv:
            continue
        tree = ast.parse(v[4])
        # skip nested functions
        fd = v[2]
        nested = False
        for n in ast.walk(tree):
            if isinstance(n, ast.FunctionDef) and (n.lineno, n.name) != (fd.lineno, fd.name) and n.lineno <= fd.lineno and n.end_lineno >= fd.end_lineno:
                nested = True
        if not nested:
            vs.append(v)
    print('variants:', len(vs))
    bad = 0
    with concurrent.futures.ThreadPoolExecutor(max_workers=10) as ex:
        for name, res in ex.map(one, vs):
            if 'error' in res:
                print('{}: SKIPPED ({})'.format(name, res['error']))
                continue
            noisy = {p: (v['rc'], v['rules'] or v['undecided']) for p, v in res.items() if v['rc'] != 0}
            if noisy:
                bad += 1
                print('{}: ALARM {}'.format(name, noisy))
            sys.stdout.flush()
    print('renamed functions raising an alarm:', bad)
    return 0


if __name__ == '__main__':
    sys.exit(main(sys.argv[1:]))
