#!/bin/bash
# usage: adhoc.sh <file-rel> <old> <new> <check>
rm -rf /tmp/rn /tmp/rn_out; mkdir /tmp/rn; rsync -a --exclude .git /repo/ /tmp/rn/
python3 - "$1" "$2" "$3" <<'PY'
import sys
p='/tmp/rn/'+sys.argv[1]; s=open(p).read(); old=sys.argv[2].encode().decode('unicode_escape'); new=sys.argv[3].encode().decode('unicode_escape')
assert old in s, 'anchor not found'
open(p,'w').write(s.replace(old,new,1))
PY
cd /verif; RBQL_VERIF_REPO=/tmp/rn RBQL_VERIF_OUT=/tmp/rn_out timeout 300 ./check $4 | grep -v "^KNOWN" | grep -A1 "^VIOLATION\|ANALYSIS-ERROR" | cut -c1-400 | head -8
rm -rf /tmp/rn /tmp/rn_out
