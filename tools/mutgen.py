"""Mutation sweep (developer tool): small syntactic mutants of the Python library modules, each checked to (a) still compile and
(b) be *killed or not* by the project's own tests run against the mutated tree; mutants that survive the tests are then given to
the checks.  Output: one line per mutant with the verdicts.  The survivors that no check reports are candidates for new rules
(after reading: many are equivalent or irrelevant to the properties).

  /venv/bin/python -m tools.mutgen [module[:function] ...]   > report
"""
import ast
import concurrent.futures
import os
import shutil
import subprocess
import sys

from tools import selftest

MODULES = ['rbql_engine', 'rbql_csv', 'csv_utils']
CMP_FLIP = {'<': '<=', '<=': '<', '>': '>=', '>=': '>', '==': '!=', '!=': '==', 'is': 'is not', 'is not': 'is', 'in': 'not in', 'not in': 'in'}
OPNAME = {ast.Lt: '<', ast.LtE: '<=', ast.Gt: '>', ast.GtE: '>=', ast.Eq: '==', ast.NotEq: '!=', ast.Is: 'is', ast.IsNot: 'is not', ast.In: 'in', ast.NotIn: 'not in'}


def seg(lines, node):
    if node.lineno != node.end_lineno:
        return None
    return lines[node.lineno - 1][node.col_offset:node.end_col_offset]


def replace_span(lines, lineno, c0, c1, new):
    out = list(lines)
    ln = out[lineno - 1]
    out[lineno - 1] = ln[:c0] + new + ln[c1:]
    return out


def mutants_of(src, modname, only_func=None):
    tree = ast.parse(src)
    lines = src.splitlines(keepends=True)
    for fd in ast.walk(tree):
        if not isinstance(fd, ast.FunctionDef):
            continue
        if only_func and fd.name != only_func:
            continue
        for n in ast.walk(fd):
            if isinstance(n, ast.Compare) and len(n.ops) == 1 and n.lineno == n.end_lineno:
                op = OPNAME.get(type(n.ops[0]))
                l, r = n.left, n.comparators[0]
                if op and l.end_lineno == r.lineno == n.lineno:
                    between = lines[n.lineno - 1][l.end_col_offset:r.col_offset]
                    if op in between:
                        new_between = between.replace(op, CMP_FLIP[op], 1)
                        yield ('{}.{}:{} cmp `{}` {}->{}'.format(modname, fd.name, n.lineno, seg(lines, n), op, CMP_FLIP[op]), replace_span(lines, n.lineno, l.end_col_offset, r.col_offset, new_between))
            if isinstance(n, ast.Constant) and isinstance(n.value, int) and not isinstance(n.value, bool) and n.value in (0, 1, 2) and n.lineno == n.end_lineno:
                yield ('{}.{}:{} const {}->{}'.format(modname, fd.name, n.lineno, n.value, n.value + 1), replace_span(lines, n.lineno, n.col_offset, n.end_col_offset, str(n.value + 1)))
            if isinstance(n, ast.Constant) and isinstance(n.value, bool) and n.lineno == n.end_lineno:
                yield ('{}.{}:{} bool {}->{}'.format(modname, fd.name, n.lineno, n.value, not n.value), replace_span(lines, n.lineno, n.col_offset, n.end_col_offset, str(not n.value)))
            if isinstance(n, ast.BoolOp) and n.lineno == n.end_lineno and len(n.values) == 2:
                a, b = n.values
                between = lines[n.lineno - 1][a.end_col_offset:b.col_offset]
                w = ' and ' if isinstance(n.op, ast.And) else ' or '
                if w in between:
                    yield ('{}.{}:{} boolop `{}`'.format(modname, fd.name, n.lineno, seg(lines, n)), replace_span(lines, n.lineno, a.end_col_offset, b.col_offset, between.replace(w, ' or ' if w == ' and ' else ' and ', 1)))
            if isinstance(n, ast.UnaryOp) and isinstance(n.op, ast.Not) and n.lineno == n.end_lineno:
                s = seg(lines, n)
                if s and s.startswith('not '):
                    yield ('{}.{}:{} drop-not `{}`'.format(modname, fd.name, n.lineno, s), replace_span(lines, n.lineno, n.col_offset, n.col_offset + 4, ''))
            if isinstance(n, (ast.Expr, ast.AugAssign)) and n.lineno == n.end_lineno and not (isinstance(n, ast.Expr) and isinstance(n.value, ast.Constant)):
                s = seg(lines, n)
                yield ('{}.{}:{} delete `{}`'.format(modname, fd.name, n.lineno, s), replace_span(lines, n.lineno, n.col_offset, n.end_col_offset, 'pass'))
            if isinstance(n, ast.BinOp) and isinstance(n.op, (ast.Add, ast.Sub)) and n.lineno == n.end_lineno and isinstance(n.right, ast.Constant) and isinstance(n.right.value, int):
                l, r = n.left, n.right
                between = lines[n.lineno - 1][l.end_col_offset:r.col_offset]
                sym = '+' if isinstance(n.op, ast.Add) else '-'
                if sym in between:
                    yield ('{}.{}:{} arith `{}`'.format(modname, fd.name, n.lineno, seg(lines, n)), replace_span(lines, n.lineno, l.end_col_offset, r.col_offset, between.replace(sym, '-' if sym == '+' else '+', 1)))


def run_one(args):
    name, rel, new_lines = args
    tree = selftest.make_copy()
    try:
        path = os.path.join(tree, rel)
        with open(path, 'w') as f:
            f.write(''.join(new_lines))
        r = subprocess.run(['/venv/bin/python', '-W', 'ignore', '-m', 'py_compile', path], stdout=subprocess.PIPE, stderr=subprocess.STDOUT)
        if r.returncode != 0:
            return name, 'NOCOMPILE', None
        env = dict(os.environ, PYTHONPATH=os.path.join(tree, 'rbql-py'))
        try:
            r = subprocess.run(['/venv/bin/python', '-W', 'ignore', '-m', 'pytest', '-q', '-x', '-p', 'no:cacheprovider', '--timeout=120', 'test/test_rbql.py', 'test/test_csv_utils.py', 'test/test_mad_max.py', 'test/test_rbql_sqlite.py'], cwd=tree, env=env, stdout=subprocess.PIPE, stderr=subprocess.STDOUT, timeout=400)
            killed = r.returncode != 0
        except subprocess.TimeoutExpired:
            killed = True
        if killed:
            return name, 'KILLED-BY-TESTS', None
        res = selftest.run_checks(tree)
        fired = {p: v['rules'] for p, v in res.items() if v['rc'] == 1}
        und = {p: v['undecided'] for p, v in res.items() if v['rc'] == 2}
        return name, 'SURVIVES-TESTS', (fired, und)
    finally:
        shutil.rmtree(tree, ignore_errors=True)


def main(argv):
    jobs = []
    targets = argv or MODULES
    for t in targets:
        mod, _, fn = t.partition(':')
        rel = 'rbql-py/rbql/{}.py'.format(mod)
        src = open(os.path.join('/repo', rel)).read()
        seen = set()
        for name, new_lines in mutants_of(src, mod, fn or None):
            key = ''.join(new_lines)
            if key in seen or key == src:
                continue
            seen.add(key)
            jobs.append((name, rel, new_lines))
    print('mutants:', len(jobs))
    sys.stdout.flush()
    n_surv = n_caught = 0
    with concurrent.futures.ThreadPoolExecutor(max_workers=12) as ex:
        for name, status, res in ex.map(run_one, jobs):
            if status != 'SURVIVES-TESTS':
                print('{} :: {}'.format(status, name))
            else:
                fired, und = res
                n_surv += 1
                if fired:
                    n_caught += 1
                print('{} :: {} :: VIOLATION {} UNDECIDED {}'.format('CAUGHT' if fired else ('UNDECIDED' if und else 'MISSED'), name, fired or '-', und or '-'))
            sys.stdout.flush()
    print('survive tests: {}  reported by a check: {}'.format(n_surv, n_caught))


if __name__ == '__main__':
    main(sys.argv[1:])
