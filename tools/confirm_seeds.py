"""Confirms seeded changes (developer tool): for every <src>/<ID>/m<k>.diff  (usage: confirm_seeds.py [src [name-prefix]])
   1. applies it to a scratch copy of /repo (outside /repo and /verif),
   2. compiles the touched files, 3. runs the project's tests against the scratch tree (and the pinned baseline command),
   4. runs the demonstration against the scratch tree (must exit 1) and against /repo (must exit 0),
and stores the confirmed ones as /verif/seeded/<ID>-m<k>/{patch.diff, demo.*, meta.json}."""
import concurrent.futures
import glob
import json
import os
import re
import shutil
import subprocess
import sys

sys.path.insert(0, os.path.dirname(os.path.dirname(os.path.abspath(__file__))))
from tools import selftest  # noqa: E402

VERIF = selftest.VERIF
SRC = sys.argv[1] if len(sys.argv) > 1 else '/tmp/seed_out'
PREFIX = sys.argv[2] if len(sys.argv) > 2 else ''


def sh(cmd, cwd=None, env=None, timeout=600):
    r = subprocess.run(cmd, cwd=cwd, env=env, stdout=subprocess.PIPE, stderr=subprocess.STDOUT, timeout=timeout)
    return r.returncode, r.stdout.decode('utf-8', 'replace')


def confirm(diff):
    pid = os.path.basename(os.path.dirname(diff))
    k = re.search(r'm(\d+)\.diff$', diff).group(1)
    name = '{}{}-m{}'.format(PREFIX, pid, k)
    demos = glob.glob(os.path.join(SRC, pid, 'demo{}.*'.format(k)))
    if len(demos) != 1:
        return name, {'ok': False, 'why': 'demo not found'}
    demo = demos[0]
    tree = selftest.make_copy()
    rec = {'ok': False}
    try:
        rc, out = sh(['git', 'apply', '--unsafe-paths', '--directory', tree, os.path.abspath(diff)], cwd='/')
        if rc != 0:
            return name, {'ok': False, 'why': 'patch does not apply: ' + out[:200]}
        files = re.findall(r'^\+\+\+ b/(\S+)', open(diff).read(), re.M)
        for f in files:
            if f.endswith('.py'):
                rc, out = sh(['/venv/bin/python', '-W', 'ignore', '-m', 'py_compile', os.path.join(tree, f)])
            else:
                rc, out = sh(['node', '--check', os.path.join(tree, f)])
            if rc != 0:
                return name, {'ok': False, 'why': 'does not compile: ' + out[:200]}
        env = dict(os.environ, PYTHONPATH=os.path.join(tree, 'rbql-py'))
        rc, out = sh(['/venv/bin/python', '-W', 'ignore', '-m', 'pytest', '-q', '-p', 'no:cacheprovider', 'test/test_rbql.py', 'test/test_csv_utils.py', 'test/test_mad_max.py', 'test/test_rbql_sqlite.py', 'test/test_rbql_pandas.py'], cwd=tree, env=env)
        tail = out.strip().splitlines()[-1] if out.strip() else ''
        rec['tree_tests'] = tail
        if rc != 0:
            return name, {'ok': False, 'why': 'project tests fail on the changed tree: ' + tail}
        rc, out = sh(['/venv/bin/python', '-m', 'pytest', '-q', '-p', 'no:cacheprovider', '--timeout=900', '--continue-on-collection-errors'], cwd=tree)
        tail = out.strip().splitlines()[-1] if out.strip() else ''
        rec['pinned_suite'] = tail
        if '45 passed' not in tail:
            return name, {'ok': False, 'why': 'pinned suite changed: ' + tail}
        if any(f.endswith('.js') for f in files):
            rc, out = sh(['node', 'test_csv_utils.js'], cwd=os.path.join(tree, 'test'))
            rec['js_csv_tests_rc'] = rc
            if rc != 0:
                return name, {'ok': False, 'why': 'node test_csv_utils.js fails'}
        runner = ['/venv/bin/python', '-W', 'ignore'] if demo.endswith('.py') else ['node']
        rc1, out1 = sh(runner + [demo, tree], cwd=os.path.dirname(demo))
        rc0, out0 = sh(runner + [demo, '/repo'], cwd=os.path.dirname(demo))
        rec['demo_on_changed_tree_rc'] = rc1
        rec['demo_on_clean_tree_rc'] = rc0
        rec['demo_output_changed'] = out1.strip()[-600:]
        if rc1 == 0 or rc0 != 0:
            return name, {'ok': False, 'why': 'demo: changed tree rc={} clean tree rc={} :: {}'.format(rc1, rc0, out0.strip()[-200:])}
        rec['ok'] = True
        # store
        dst = os.path.join(VERIF, 'seeded', name)
        os.makedirs(dst, exist_ok=True)
        shutil.copy(diff, os.path.join(dst, 'patch.diff'))
        shutil.copy(demo, os.path.join(dst, 'demo' + os.path.splitext(demo)[1]))
        notes = ''
        np_ = os.path.join(SRC, pid, 'notes.md')
        if os.path.exists(np_):
            notes = open(np_).read()
        rec['notes_file'] = 'notes.md'
        with open(os.path.join(dst, 'notes.md'), 'w') as f:
            f.write(notes)
        return name, rec
    finally:
        shutil.rmtree(tree, ignore_errors=True)


def main():
    diffs = sorted(glob.glob(os.path.join(SRC, 'C*', 'm*.diff')))
    res = {}
    with concurrent.futures.ThreadPoolExecutor(max_workers=8) as ex:
        for name, rec in ex.map(confirm, diffs):
            res[name] = rec
            print(name, 'CONFIRMED' if rec.get('ok') else 'REJECTED: ' + rec.get('why', ''))
            sys.stdout.flush()
    with open('/tmp/seed_confirm{}.json'.format('_' + PREFIX.strip('-') if PREFIX else ''), 'w') as f:
        json.dump(res, f, indent=1)


if __name__ == '__main__':
    main()
