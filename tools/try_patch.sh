#!/bin/bash
# usage: r.sh <diff> <check-id> ; applies diff on scratch copy and runs check verbosely
set -e
rm -rf /tmp/rn /tmp/rn_out; mkdir /tmp/rn; rsync -a --exclude .git /repo/ /tmp/rn/
(cd /tmp/rn && patch -p1 -s < $1)
cd /verif; RBQL_VERIF_REPO=/tmp/rn RBQL_VERIF_OUT=/tmp/rn_out timeout 300 ./check $2 ${3:-} | grep -v "^KNOWN" | grep -B1 -A0 "VIOLATION\|ANALYSIS-ERROR\|rule=" | cut -c1-700 | head -${4:-30}
rm -rf /tmp/rn /tmp/rn_out
